"""C03 — IMFs are peeled one at a time from the running residual; caps are respected."""
import os
import shutil
import tempfile

import numpy as np

from common import proto
from common.framework import Failure, ImplError, Stream, err_kind
from props import _sift as S

ID = 'C03'
LEAN_MODULES = ['Proofs.C03']
REQUIRED = ['C03.sift_col_eq_extract', 'C03.sift_cap_prefix', 'C03.sift_cols_le_cap', 'C03.maskSift_col_eq_extract',
            'C03.maskSift_cols_le_cap', 'C03.maskSift_cap_prefix', 'C03.ensemble_cols_le_cap', 'C03.ensembleSift_cols_le_cap',
            'C03.ceemd_cols_le_cap', 'C03.secondLayer_shape', 'C03.secondLayer_block', 'C03.secondLayer_over_sift',
            'C03.maskSecondLayer_shape', 'C03.maskSecondLayer_block', 'C03.maskSecondLayer_ok_iff', 'C03.maskSecondLayer_over_maskSift',
            'C03.maskSift_col_lengths', 'C03.ceemd_col_lengths']
TRUSTED = ['single-IMF extraction (get_next_imf / get_next_imf_mask) is an oracle table in the SIFT / MASKSIFT correspondence: row k '
           'holds the output of the real public function on the residual computed by the harness; the model replays its own loop and '
           'cap logic and rejects the table (oracle-desync) if a residual drifts by more than 1e-9*max(1,|x|)',
           'randomised variants (ensemble, complete ensemble): numpy global RNG is seeded per case; only shapes / caps / finiteness are '
           'compared; member widths are observed by wrapping the public attribute emd.sift.sift from the harness (log file, fork-safe)',
           'FINITENESS is not a theorem (Q has no inf/NaN): decided by np.isfinite on the implementation output only (partial claim)',
           'mask cosines, std, noise draws, the ensemble mean values are library numerics: not modelled here (C07/C08)']
ASSUMPTIONS = ['mask_sift is called with an integer max_imfs (the code requires it); caps are >= 1',
               'sift_second_layer is used with sift_func=emd.sift.sift',
               'mask_sift_second_layer is called with an array-like mask_freqs (list / tuple / ndarray; a string or float cannot be '
               'sliced per column) and without ret_mask_freq; with fewer masks than first-layer components it raises IndexError '
               '(modelled: L2Result.indexError, compared exactly; nothing is documented to be returned there)']
RULE = ('classic: random signals (9 families) x imf options x caps k = 1..K+2 (K = components of the uncapped run) x input layouts '
        '(n,), (n,1); mask: signals x mask_freqs {zc, float, user list shorter/longer than cap} x amp modes x nphases x caps; '
        'ensemble / complete ensemble: seeded runs x nensembles x noise mode x caps incl. caps above the available components; '
        'second layer: first-layer caps x sift_args {None, {}, max_imfs below/equal/above the first-layer count}; '
        'mask second layer: the same x number of masks 1..6 (below/equal/above the first-layer count) x list/tuple/array x mask options. '
        'Non-trivial: a cap that actually truncates (k < K), a ragged ensemble, or a padded second-layer block; distinct by content hash.')

IMPL_TIMEOUT = 40
BASE = {'stop_method': 'sd', 'sd_thresh': 0.1, 'env_step_size': 1, 'max_iters': 1000, 'interp_method': 'splrep',
        'pad_width': 2, 'energy_thresh': None}


def _tones(n, seed=0):
    t = np.arange(n)
    r = np.random.default_rng(seed)
    return (np.sin(2 * np.pi * 0.21 * t + r.uniform(0, 6)) + 0.6 * np.sin(2 * np.pi * 0.07 * t) + 0.4 * np.sin(2 * np.pi * 0.023 * t)
            + t / max(1, n) + 0.05 * r.standard_normal(n))


def _finite(a):
    return bool(np.all(np.isfinite(np.asarray(a, dtype=float))))


# ---------------------------------------------------------------------------------------------------------

class CapPrefix(Stream):
    """classic sift: capped vs. uncapped runs, manual peeling, input layouts"""
    name = 'sift_caps'

    def corpus(self):
        c = [{'x': S.fr_list(_tones(64)), 'opts': dict(BASE), 'thr': 1e-8, 'family': 'corpus-tones'},
             {'x': [0.0, 1.0, 2.0, 3.0, 4.0], 'opts': dict(BASE), 'thr': 1e-8, 'family': 'corpus-ramp'},
             {'x': [-0.61, -0.54, -0.88, 2.33, 1.75, 1.47, 1.42, 2.76],
              'opts': dict(BASE, stop_method='rilling', rilling_thresh=[0.05, 1.0, 0.1], max_iters=50), 'thr': 1e-8, 'family': 'corpus-d2'}]
        return c

    def generate(self, rng, tier):
        ncase = 1200 if tier == 'thorough' else 160
        nmax = 128 if tier == 'thorough' else 64
        for i in range(ncase):
            fam = rng.choice(['noise', 'noise', 'walk', 'tones', 'tones', 'amfm', 'plateau', 'ramp', 'fewext', 'shortnoise', 'perfect'])
            if fam == 'shortnoise':
                n, f2 = rng.randint(5, 16), 'noise'
            else:
                n, f2 = rng.choice([8, 16, 24, 32, 48, 64, nmax]), fam
            o = S.gen_opts(rng, tier, allow_energy=False, family=f2)
            if o['stop_method'] == 'fixed' and o['max_iters'] > 10:
                o['max_iters'] = rng.choice([3, 5, 10])
            if o['stop_method'] != 'fixed' and o['max_iters'] < 10:
                o['max_iters'] = 50
            if rng.random() < 0.5:
                o['env_step_size'] = 1
            if o['env_step_size'] != 1 and n > 64:
                n = 64            # small steps give ~100 components: keep every legitimate call well below the time limit
            x = S.gen_signal(rng, f2, n)
            thr = 1e-8 if rng.random() < 0.85 else 0.3 * max(1.0, float(np.max(np.abs(x))))
            yield {'x': S.fr_list(x), 'opts': o, 'thr': thr, 'family': fam}

    def impl(self, case):
        x, o = np.array(case['x'], dtype=float), case['opts']
        out = {}
        try:
            with S.time_limit(IMPL_TIMEOUT):
                full = np.asarray(S.call_sift(x, o, case['thr'], None))
        except Exception as e:  # noqa
            return {'error': err_kind(e), 'msg': str(e)[:200]}
        K0 = full.shape[1]
        out['full_shape'] = list(full.shape)
        out['finite'] = _finite(full)
        caps = {}
        for k in self._caps(K0):
            try:
                with S.time_limit(IMPL_TIMEOUT):
                    c = np.asarray(S.call_sift(x, o, case['thr'], k))
                caps[str(k)] = {'shape': list(c.shape), 'prefix_equal': bool(np.array_equal(c, full[:, :k])),
                                'finite': _finite(c)}
            except Exception as e:  # noqa
                caps[str(k)] = {'error': err_kind(e)}
        out['caps'] = caps
        # layouts: (n,1) column input
        try:
            import emd
            with S.time_limit(IMPL_TIMEOUT):
                c2 = np.asarray(emd.sift.sift(x[:, None].copy(), **S.sift_kwargs(o, case['thr'], None)))
            out['layout_equal'] = bool(np.array_equal(c2, full))
        except Exception as e:  # noqa
            out['layout_equal'] = 'raises:' + err_kind(e)
        try:
            with S.time_limit(2 * IMPL_TIMEOUT):
                rows = S.peel(x, o, K0 + 2)
        except S.Timeout:
            out['peel_timeout'] = True
            return out
        out['table'] = [[S.fr_list(r), None if c is None else S.fr_list(c), f, err, None] for r, c, f, err, _ in rows]
        out['peel_equal'] = all(rows[k][1] is not None and np.array_equal(rows[k][1], full[:, k]) for k in range(min(K0, len(rows)))) \
            and len(rows) >= K0
        return out

    @staticmethod
    def _caps(K0):
        """all caps 1..K+2 for runs of up to 10 components, a spread of at most 12 caps otherwise"""
        if K0 <= 10:
            return list(range(1, K0 + 3))
        mid = [max(1, (K0 * j) // 6) for j in range(1, 6)]
        return sorted(set([1, 2, 3] + mid + [K0 - 1, K0, K0 + 1, K0 + 2]))

    def _caps_for_ops(self, out):
        K0 = out['full_shape'][1]
        ks = sorted(set([1, 2, K0 - 1, K0, K0 + 1, K0 + 2]) & set(range(1, K0 + 3)))
        return [None] + ks

    def ops(self, case, out):
        if isinstance(out, ImplError) or 'error' in out or 'table' not in out:
            return []
        rows = [tuple(r) for r in out['table']]
        return [S.sift_op(case['x'], case['thr'], k, rows) for k in self._caps_for_ops(out)]

    def compare(self, case, out, results):
        if isinstance(out, ImplError):
            return 'harness impl wrapper raised %s' % out['error']
        if 'error' in out:
            return None          # uncapped run raises (convergence error): covered by C01 / C04
        if 'table' not in out:
            return 'skip:peeling-timeout'
        for k, r in zip(self._caps_for_ops(out), results):
            if r.status in ('bad-op', 'oracle-desync'):
                return 'cap=%s: %s' % (k, r.raw[:160])
            if r.status == 'err':
                return 'cap=%s: model raises, impl returned' % k
            if float(r.args['margin']) < S.TIE:
                return 'skip:near-tie'
            want = out['full_shape'][1] if k is None else out['caps'][str(k)].get('shape', [0, -1])[1]
            if r.args['exit'] == 'fuel' or int(r.args['ncols']) != want:
                return 'cap=%s: model %s components (%s), impl %s' % (k, r.args['ncols'], r.args['exit'], want)
        return None

    def holds(self, case, out):
        if isinstance(out, ImplError):
            return [Failure('does-not-terminate' if out['error'] == 'Timeout' else 'harness-crashed:' + out['error'], out.get('msg', ''))]
        if 'error' in out:
            if out['error'] == 'Timeout':
                return [Failure('does-not-terminate', out['msg'])]
            return [] if out['error'] == 'EMDSiftCovergeError' else [Failure('raises:' + out['error'], out['msg'])]
        n = len(case['x'])
        K0 = out['full_shape'][1]
        fs = []
        if out['full_shape'][0] != n:
            fs.append(Failure('wrong-shape', str(out['full_shape'])))
        if not out['finite']:
            fs.append(Failure('non-finite-output', 'uncapped'))
        for k in self._caps(K0):
            c = out['caps'][str(k)]
            if 'error' in c:
                fs.append(Failure('capped-run-raises:' + c['error'], 'max_imfs=%d' % k))
                continue
            if c['shape'][0] != n or len(c['shape']) != 2:
                fs.append(Failure('wrong-shape', 'max_imfs=%d -> %s' % (k, c['shape'])))
            if c['shape'][1] > k:
                fs.append(Failure('more-components-than-cap', 'max_imfs=%d -> %d components' % (k, c['shape'][1])))
            elif c['shape'][1] != min(k, K0):
                fs.append(Failure('capped-run-wrong-count', 'max_imfs=%d -> %d components, uncapped run has %d' % (k, c['shape'][1], K0)))
            elif not c['prefix_equal']:
                fs.append(Failure('capped-run-not-prefix-of-uncapped', 'max_imfs=%d' % k))
            if not c['finite']:
                fs.append(Failure('non-finite-output', 'max_imfs=%d' % k))
        if not out.get('peel_equal', True):
            fs.append(Failure('manual-peeling-differs-from-sift', 'get_next_imf on x - sum(first k components) does not reproduce component k'))
        if out['layout_equal'] is not True:
            fs.append(Failure('layout-dependent-result', '(n,1) input: %s' % out['layout_equal']))
        seen = {}
        for f in fs:
            seen.setdefault(f.kind, f)
        return list(seen.values())

    def tags(self, case, out):
        t = ['family=' + case['family'], 'stop=' + case['opts']['stop_method']]
        if not isinstance(out, ImplError) and 'error' not in out:
            K0 = out['full_shape'][1]
            t.append('K=%s' % (K0 if K0 <= 3 else '4-6' if K0 <= 6 else '>6'))
        elif not isinstance(out, ImplError):
            t.append('uncapped-raises:' + out['error'])
        return t

    def nontrivial(self, case, out):
        return not isinstance(out, ImplError) and 'error' not in out and out['full_shape'][1] >= 2

    def shrink(self, case):
        x = case['x']
        n = len(x)
        for cut in (n // 2, n // 4, 1):
            if 0 < cut and n - cut >= 3:
                yield dict(case, x=x[cut:])
                yield dict(case, x=x[:n - cut])


# ---------------------------------------------------------------------------------------------------------

def _mask_kwargs(case, cap):
    kw = {'max_imfs': cap, 'mask_amp': case['amp'], 'mask_amp_mode': case['amp_mode'], 'nphases': case['nphases'],
          'nprocesses': 1, 'sift_thresh': case['thr']}
    mf = case['freqs']
    kw['mask_freqs'] = np.array(mf) if isinstance(mf, list) else mf
    return kw


def _mask_peel(x, case, freqs, layers):
    """manual peeling with the public get_next_imf_mask, mask frequency / amplitude per layer as documented"""
    import emd
    X = np.array(x, dtype=float)[:, None]
    rows = []
    r = X.copy()
    imf = None
    for k in range(layers):
        if k >= len(freqs):
            break
        if case['amp_mode'] == 'abs':
            sd = 1
        elif case['amp_mode'] == 'ratio_sig' or k == 0:
            sd = X.std()
        else:
            sd = imf[:, -1].std()
        amp = case['amp'] * sd
        c, f = emd.sift.get_next_imf_mask(r, freqs[k], amp, nphases=case['nphases'], nprocesses=1)
        rows.append((r[:, 0].copy(), c[:, 0].copy(), bool(f), None, None))
        imf = c if imf is None else np.concatenate((imf, c), axis=1)
        r = X - imf.sum(axis=1)[:, None]
    return rows


class MaskCaps(Stream):
    name = 'mask_caps'
    parallel = False          # get_next_imf_mask opens its own multiprocessing pool

    def corpus(self):
        x = S.fr_list(_tones(96, 1))
        return [{'x': x, 'freqs': 'zc', 'amp': 1, 'amp_mode': 'ratio_imf', 'nphases': 4, 'thr': 1e-8, 'kmax': 5},
                {'x': x, 'freqs': [0.3, 0.1, 0.04], 'amp': 1, 'amp_mode': 'ratio_sig', 'nphases': 2, 'thr': 1e-8, 'kmax': 5},
                {'x': x, 'freqs': 0.25, 'amp': 0.5, 'amp_mode': 'abs', 'nphases': 4, 'thr': 1e-8, 'kmax': 4}]

    def generate(self, rng, tier):
        for i in range(160 if tier == 'thorough' else 24):
            fam = rng.choice(['noise', 'tones', 'tones', 'amfm', 'walk'])
            n = rng.choice([32, 48, 64, 96])
            x = S.gen_signal(rng, fam, n)
            u = rng.random()
            if u < 0.35:
                freqs = 'zc'
            elif u < 0.55:
                freqs = round(rng.uniform(0.05, 0.45), 3)
            else:
                m = rng.randint(1, 6)
                f0 = rng.uniform(0.2, 0.45)
                freqs = [round(f0 / (2 ** j), 5) for j in range(m)]
            yield {'x': S.fr_list(x), 'freqs': freqs, 'amp': rng.choice([1, 1, 0.5, 2]),
                   'amp_mode': rng.choice(['ratio_imf', 'ratio_sig', 'abs']), 'nphases': rng.choice([1, 2, 4, 4]),
                   'thr': 1e-8, 'kmax': rng.choice([3, 4, 5, 6])}

    def impl(self, case):
        import emd
        x = np.array(case['x'], dtype=float)
        kmax = case['kmax']
        out = {}
        with S.time_limit(IMPL_TIMEOUT * 3):
            full, freqs = emd.sift.mask_sift(x, ret_mask_freq=True, **_mask_kwargs(case, kmax))
            full = np.asarray(full)
            K0 = full.shape[1]
            out['full_shape'] = list(full.shape)
            out['finite'] = _finite(full)
            out['nfreqs'] = len(case['freqs']) if isinstance(case['freqs'], list) else None
            caps = {}
            for k in sorted(set([1, 2, K0, kmax, kmax + 1]) & set(range(1, kmax + 2))):
                try:
                    c = np.asarray(emd.sift.mask_sift(x, **_mask_kwargs(case, k)))
                    caps[str(k)] = {'shape': list(c.shape), 'prefix_equal': bool(c.shape[1] <= K0 and np.array_equal(c, full[:, :c.shape[1]])),
                                    'finite': _finite(c)}
                except Exception as e:  # noqa
                    caps[str(k)] = {'error': err_kind(e)}
            out['caps'] = caps
            rows = _mask_peel(x, case, list(np.asarray(freqs, dtype=float)), K0 + 1)
            out['table'] = [[S.fr_list(r), S.fr_list(c), f, None, None] for r, c, f, _, _ in rows]
            out['peel_equal'] = len(rows) >= K0 and all(np.array_equal(rows[k][1], full[:, k]) for k in range(K0))
        return out

    def _op(self, case, out, k):
        rows = [tuple(r) for r in out['table']]
        args = {'thr': case['thr'], 'cap': str(int(k)), 'tol': S.TOL * S.scale_of(case['x']),
                'nfreqs': 'none' if out['nfreqs'] is None else str(out['nfreqs'])}
        flags = [1 if f else 0 for _, c, f, _, _ in rows]
        vecs = [list(map(float, case['x'])), flags]
        for r, c, f, e, _ in rows:
            vecs += [list(map(float, r)), list(map(float, c))]
        return proto.op('MASKSIFT-PEEL', args, vecs)

    def _ks(self, case, out):
        return [case['kmax']] + [int(k) for k in sorted(out['caps'], key=int) if int(k) < case['kmax']]

    def ops(self, case, out):
        if isinstance(out, ImplError):
            return []
        return [self._op(case, out, k) for k in self._ks(case, out)]

    def compare(self, case, out, results):
        if isinstance(out, ImplError):
            return None
        for k, r in zip(self._ks(case, out), results):
            want = out['full_shape'][1] if k == case['kmax'] else out['caps'][str(k)].get('shape', [0, -1])[1]
            if not r.ok:
                return 'cap=%s: %s' % (k, r.raw[:160])
            if float(r.args['margin']) < S.TIE:
                return 'skip:near-tie'
            if r.args['exit'] == 'fuel':
                # the table has K0+1 rows at most (never beyond the available frequencies)
                if int(r.args['ncols']) == want:
                    continue
            if int(r.args['ncols']) != want:
                return 'cap=%s: model %s components (%s), impl %s' % (k, r.args['ncols'], r.args['exit'], want)
        return None

    def holds(self, case, out):
        if isinstance(out, ImplError):
            return [Failure('does-not-terminate' if out['error'] == 'Timeout' else 'raises:' + out['error'], out.get('msg', ''))]
        n = len(case['x'])
        K0 = out['full_shape'][1]
        lim = case['kmax'] if out['nfreqs'] is None else min(case['kmax'], out['nfreqs'])
        fs = []
        if out['full_shape'][0] != n:
            fs.append(Failure('wrong-shape', str(out['full_shape'])))
        if K0 > lim:
            fs.append(Failure('more-components-than-cap', 'max_imfs=%d, %s user frequencies -> %d components' % (case['kmax'], out['nfreqs'], K0)))
        if not out['finite']:
            fs.append(Failure('non-finite-output', ''))
        for ks, c in out['caps'].items():
            k = int(ks)
            if 'error' in c:
                fs.append(Failure('capped-run-raises:' + c['error'], 'max_imfs=%d' % k))
                continue
            limk = k if out['nfreqs'] is None else min(k, out['nfreqs'])
            if c['shape'][0] != n:
                fs.append(Failure('wrong-shape', 'max_imfs=%d -> %s' % (k, c['shape'])))
            if c['shape'][1] > limk:
                fs.append(Failure('more-components-than-cap', 'max_imfs=%d -> %d' % (k, c['shape'][1])))
            elif k <= case['kmax'] and c['shape'][1] != min(k, K0):
                fs.append(Failure('capped-run-wrong-count', 'max_imfs=%d -> %d, max_imfs=%d -> %d' % (k, c['shape'][1], case['kmax'], K0)))
            elif k <= case['kmax'] and not c['prefix_equal']:
                fs.append(Failure('capped-run-not-prefix-of-uncapped', 'max_imfs=%d' % k))
            if not c['finite']:
                fs.append(Failure('non-finite-output', 'max_imfs=%d' % k))
        if not out['peel_equal']:
            fs.append(Failure('manual-peeling-differs-from-mask-sift', ''))
        seen = {}
        for f in fs:
            seen.setdefault(f.kind, f)
        return list(seen.values())

    def tags(self, case, out):
        t = ['freqs=' + ('list' if isinstance(case['freqs'], list) else 'float' if isinstance(case['freqs'], float) else case['freqs']),
             'amp_mode=' + case['amp_mode'], 'nphases=%d' % case['nphases']]
        if not isinstance(out, ImplError):
            t.append('K=%d' % out['full_shape'][1])
            if out['nfreqs'] is not None and out['nfreqs'] < case['kmax']:
                t.append('cap-lowered-to-nfreqs')
        return t

    def nontrivial(self, case, out):
        return not isinstance(out, ImplError) and out['full_shape'][1] >= 2


# ---------------------------------------------------------------------------------------------------------

class _SiftWidthLog:
    """wrap the public attribute emd.sift.sift so that every call appends its column count to a file
    (visible across the forked pool worker)"""

    def __enter__(self):
        import emd
        self.dir = tempfile.mkdtemp(prefix='c03-')
        self.path = os.path.join(self.dir, 'widths')
        self.mod = emd.sift
        self.orig = emd.sift.sift
        orig, path = self.orig, self.path

        def logged(*a, **kw):
            r = orig(*a, **kw)
            with open(path, 'a') as f:
                f.write('%d\n' % np.asarray(r).shape[1])
            return r
        self.mod.sift = logged
        return self

    def widths(self):
        if not os.path.exists(self.path):
            return []
        return [int(l) for l in open(self.path).read().split()]

    def __exit__(self, *a):
        self.mod.sift = self.orig
        shutil.rmtree(self.dir, ignore_errors=True)


class EnsembleShape(Stream):
    name = 'ensemble_shape'
    parallel = False

    def corpus(self):
        x12 = [0.3, -1.2, 0.8, -0.1, 1.7, -2.0, 0.4, 0.9, -0.6, 1.1, -1.4, 0.2]
        return [{'x': x12, 'nens': 4, 'noise': 0.2, 'mode': 'single', 'cap': 5, 'seed': 0},       # D3: members narrower than the cap
                {'x': x12, 'nens': 4, 'noise': 0.2, 'mode': 'single', 'cap': None, 'seed': 0},    # D3: member narrower than member 0
                {'x': S.fr_list(_tones(96, 2)), 'nens': 3, 'noise': 0.1, 'mode': 'single', 'cap': 2, 'seed': 1}]

    def generate(self, rng, tier):
        for i in range(400 if tier == 'thorough' else 60):
            fam = rng.choice(['noise', 'tones', 'walk', 'shortnoise', 'shortnoise', 'shortnoise'])
            n = rng.randint(8, 20) if fam == 'shortnoise' else rng.choice([24, 32, 64])
            x = S.gen_signal(rng, 'noise' if fam == 'shortnoise' else fam, n)
            yield {'x': S.fr_list(x), 'nens': rng.choice([1, 2, 4, 4, 6]), 'noise': rng.choice([0.0, 0.1, 0.2, 0.5, 1.0]),
                   'mode': 'single' if rng.random() < 0.8 else 'flip', 'cap': rng.choice([None, 1, 2, 3, 5, 8]),
                   'seed': rng.randint(0, 10 ** 6)}

    def impl(self, case):
        import emd
        x = np.array(case['x'], dtype=float)
        np.random.seed(case['seed'])
        with _SiftWidthLog() as log, S.time_limit(IMPL_TIMEOUT * 2):
            try:
                r = np.asarray(emd.sift.ensemble_sift(x, nensembles=case['nens'], ensemble_noise=case['noise'],
                                                      noise_mode=case['mode'], nprocesses=1, max_imfs=case['cap']))
                res = {'shape': list(r.shape), 'finite': _finite(r)}
            except Exception as e:  # noqa
                res = {'error': err_kind(e), 'msg': str(e)[:200]}
            res['widths'] = log.widths()
        return res

    def _member_widths(self, case, out):
        w = out['widths']
        if case['mode'] == 'flip':
            return [max(w[i:i + 2]) for i in range(0, len(w) - 1, 2)]
        return w

    def ops(self, case, out):
        if isinstance(out, ImplError) or not self._member_widths(case, out):
            return []
        return [proto.op('ENS-SHAPE', {'n': len(case['x'])}, [self._member_widths(case, out)])]

    def compare(self, case, out, results):
        if isinstance(out, ImplError) or not results:
            return None
        r = results[0]
        if not r.ok:
            return 'model: ' + r.raw[:100]
        if 'error' in out:
            if case['mode'] == 'flip' and out['error'] == 'ValueError':
                return None      # member construction failed before the averaging (instance check reports it)
            return 'model: %s components; impl raised %s (member widths %s)' % (r.args['ncols'], out['error'], out['widths'])
        if [int(r.args['rows']), int(r.args['ncols'])] != out['shape']:
            return 'model shape [%s, %s] (member widths %s), impl %s' % (r.args['rows'], r.args['ncols'], out['widths'], out['shape'])
        return None

    def holds(self, case, out):
        if isinstance(out, ImplError):
            return [Failure('does-not-terminate' if out['error'] == 'Timeout' else 'harness-crashed:' + out['error'], out.get('msg', ''))]
        ragged = len(set(out['widths'])) > 1 or (case['cap'] is not None and out['widths'] and max(out['widths']) < case['cap'])
        if 'error' in out:
            w = out['widths']
            if case['mode'] == 'flip' and out['error'] == 'ValueError' and 'broadcast' in out.get('msg', ''):
                # the + and - noise runs of one member differ in width: `imf += sift(...)` in _sift_with_noise
                return [Failure('raises:ValueError:flip-runs-with-different-component-counts',
                                'sift widths %s, max_imfs=%s: %s' % (w, case['cap'], out['msg']))]
            return [Failure('raises:%s%s' % (out['error'], ':members-with-different-component-counts' if ragged else ''),
                            'member widths %s, max_imfs=%s: %s' % (w, case['cap'], out['msg']))]
        fs = []
        if len(out['shape']) != 2 or out['shape'][0] != len(case['x']):
            fs.append(Failure('wrong-shape', str(out['shape'])))
        elif case['cap'] is not None and out['shape'][1] > case['cap']:
            fs.append(Failure('more-components-than-cap', 'max_imfs=%d -> %d' % (case['cap'], out['shape'][1])))
        elif out['widths'] and out['shape'][1] < max(out['widths']):
            fs.append(Failure('member-components-dropped', 'member widths %s but %d components returned' % (out['widths'], out['shape'][1])))
        if not out.get('finite', True):
            fs.append(Failure('non-finite-output', ''))
        return fs

    def tags(self, case, out):
        t = ['cap=%s' % case['cap'], 'nens=%d' % case['nens']]
        if not isinstance(out, ImplError):
            t.append('ragged' if len(set(out['widths'])) > 1 else 'uniform')
            if 'error' in out:
                t.append('raises:' + out['error'])
        return t

    def nontrivial(self, case, out):
        return not isinstance(out, ImplError) and len(set(out['widths'])) > 1


class CeemdShape(Stream):
    name = 'ceemd_shape'
    parallel = False

    def corpus(self):
        x = S.fr_list(_tones(128, 3))
        return [{'x': x, 'nens': 4, 'noise': 0.2, 'cap': k, 'seed': 0, 'thr': 1e-8} for k in (1, 2, 3, None)]   # D3: cap+2

    def generate(self, rng, tier):
        for i in range(250 if tier == 'thorough' else 40):
            fam = rng.choice(['noise', 'tones', 'tones', 'walk', 'amfm'])
            n = rng.choice([32, 64, 96, 128])
            x = S.gen_signal(rng, fam, n)
            yield {'x': S.fr_list(x), 'nens': rng.choice([1, 2, 4]), 'noise': rng.choice([0.1, 0.2, 0.5]),
                   'cap': rng.choice([None, 1, 2, 3, 4, 6, 10]), 'seed': rng.randint(0, 10 ** 6),
                   'thr': rng.choice([1e-8, 1e-8, 1e-8, 0.05])}

    def impl(self, case):
        import emd
        x = np.array(case['x'], dtype=float)
        np.random.seed(case['seed'])
        with S.time_limit(IMPL_TIMEOUT * 2):
            imf, noise = emd.sift.complete_ensemble_sift(x, nensembles=case['nens'], ensemble_noise=case['noise'],
                                                         nprocesses=1, max_imfs=case['cap'], sift_thresh=case['thr'])
        imf, noise = np.asarray(imf), np.asarray(noise)
        pk, th, marg = [], [], 1.0
        for j in range(1, imf.shape[1]):
            col = imf[:, j]
            pk.append(int(S.count_extrema(col)[0] < 2))
            m = float(np.abs(col).mean())
            th.append(int(m < case['thr']))
            marg = min(marg, abs(m - case['thr']) / max(m, case['thr']))
        return {'shape': list(imf.shape), 'noise_shape': list(noise.shape), 'finite': _finite(imf) and _finite(noise),
                'pk': pk, 'th': th, 'margin': marg}

    def ops(self, case, out):
        if isinstance(out, ImplError):
            return []
        # two more (non-stopping) loop columns than observed, so the model can run past the impl's exit
        return [proto.op('CEEMD-SHAPE', {'cap': 'none' if case['cap'] is None else str(case['cap'])},
                         [out['pk'] + [0, 0], out['th'] + [0, 0]])]

    def compare(self, case, out, results):
        if isinstance(out, ImplError):
            return None
        r = results[0]
        if not r.ok:
            return 'model: ' + r.raw[:100]
        if out['margin'] < S.TIE:
            return 'skip:near-tie'
        if int(r.args['ncols']) != out['shape'][1]:
            return 'model %s components (%s), impl %d (cap %s, stop causes pk=%s thr=%s)' % (
                r.args['ncols'], r.raw[:60], out['shape'][1], case['cap'], out['pk'], out['th'])
        return None

    def holds(self, case, out):
        if isinstance(out, ImplError):
            return [Failure('does-not-terminate' if out['error'] == 'Timeout' else 'raises:' + out['error'], out.get('msg', ''))]
        fs = []
        n = len(case['x'])
        if len(out['shape']) != 2 or out['shape'][0] != n or out['shape'][1] < 1:
            fs.append(Failure('wrong-shape', str(out['shape'])))
        elif case['cap'] is not None and out['shape'][1] > case['cap']:
            fs.append(Failure('more-components-than-cap', 'max_imfs=%d -> %d components' % (case['cap'], out['shape'][1])))
        if out['noise_shape'] != [n, case['nens']]:
            fs.append(Failure('wrong-noise-shape', str(out['noise_shape'])))
        if not out['finite']:
            fs.append(Failure('non-finite-output', ''))
        return fs

    def tags(self, case, out):
        t = ['cap=%s' % case['cap']]
        if not isinstance(out, ImplError):
            t.append('K=%d' % out['shape'][1])
            if case['cap'] is not None and out['shape'][1] == case['cap']:
                t.append('exit=cap')
        return t

    def nontrivial(self, case, out):
        return not isinstance(out, ImplError) and case['cap'] is not None and out['shape'][1] >= case['cap']


class SecondLayer(Stream):
    name = 'second_layer'

    def corpus(self):
        x = S.fr_list(_tones(128, 4))
        return [{'x': x, 'cap1': 3, 'args': a} for a in (None, {}, {'max_imfs': 2}, {'max_imfs': 3}, {'max_imfs': 5})]   # D3

    def generate(self, rng, tier):
        for i in range(400 if tier == 'thorough' else 60):
            fam = rng.choice(['noise', 'tones', 'tones', 'walk', 'amfm'])
            x = S.gen_signal(rng, fam, rng.choice([32, 64, 96]))
            cap1 = rng.choice([1, 2, 3, 4])
            u = rng.random()
            args = None if u < 0.2 else {} if u < 0.4 else {'max_imfs': rng.randint(1, 6)}
            if args is not None and rng.random() < 0.3:
                args['sift_thresh'] = 1e-6
            yield {'x': S.fr_list(x), 'cap1': cap1, 'args': args}

    def impl(self, case):
        import emd
        x = np.array(case['x'], dtype=float)
        with S.time_limit(IMPL_TIMEOUT):
            ia = np.abs(np.asarray(emd.sift.sift(x, max_imfs=case['cap1']))) + 0.0
            args = None if case['args'] is None else dict(case['args'])
            inner = []
            a2 = dict(case['args'] or {})
            cap2 = a2.get('max_imfs', ia.shape[1])
            a2['max_imfs'] = cap2
            for i in range(ia.shape[1]):
                inner.append(np.asarray(emd.sift.sift(ia[:, i], **a2)))
            res = {'n1': ia.shape[1], 'cap2': cap2, 'widths': [t.shape[1] for t in inner]}
            try:
                r = np.asarray(emd.sift.sift_second_layer(ia, sift_args=args))
                res['shape'] = list(r.shape)
                res['finite'] = _finite(r)
                ok = r.ndim == 3 and r.shape[1] == ia.shape[1]
                blocks = []
                for i in range(ia.shape[1] if ok else 0):
                    w = inner[i].shape[1]
                    blocks.append(bool(w <= r.shape[2] and np.array_equal(r[:, i, :w], inner[i]) and not np.any(r[:, i, w:])))
                res['blocks'] = blocks
                res['args_mutated'] = (args != case['args'])
            except Exception as e:  # noqa
                res['error'] = err_kind(e)
                res['msg'] = str(e)[:200]
        return res

    def ops(self, case, out):
        if isinstance(out, ImplError):
            return []
        cap = (case['args'] or {}).get('max_imfs')
        return [proto.op('L2-SHAPE', {'cap': 'none' if cap is None else str(cap)}, [out['widths']])]

    def compare(self, case, out, results):
        if isinstance(out, ImplError):
            return None
        r = results[0]
        if not r.ok:
            return 'model: ' + r.raw[:100]
        if 'error' in out:
            return 'model shape [n, %s, %s]; impl raised %s' % (r.args['d1'], r.args['d2'], out['error'])
        if out['shape'][1:] != [int(r.args['d1']), int(r.args['d2'])]:
            return 'model shape [n, %s, %s]; impl %s' % (r.args['d1'], r.args['d2'], out['shape'])
        filled = [int(v) for v in (r.vecs[0] or [])]
        if filled != out['widths']:
            return 'model fills %s columns per block, inner sifts have %s' % (filled, out['widths'])
        return None

    def holds(self, case, out):
        if isinstance(out, ImplError):
            return [Failure('does-not-terminate' if out['error'] == 'Timeout' else 'harness-crashed:' + out['error'], out.get('msg', ''))]
        cap = (case['args'] or {}).get('max_imfs')
        how = 'sift_args=None' if case['args'] is None else 'uncapped' if cap is None else \
            'cap-below-first-layer' if cap < out['n1'] else 'cap-above-first-layer' if cap > out['n1'] else 'cap-equals-first-layer'
        if 'error' in out:
            return [Failure('second-layer-raises:%s:%s' % (out['error'], how), out['msg'])]
        fs = []
        n = len(case['x'])
        if out['shape'] != [n, out['n1'], out['cap2']]:
            fs.append(Failure('wrong-shape:' + how, 'expected [%d, %d, %d], got %s' % (n, out['n1'], out['cap2'], out['shape'])))
        elif not all(out['blocks']):
            fs.append(Failure('second-layer-block-differs:' + how, 'blocks equal to sift(IA[:, i]) zero padded: %s' % out['blocks']))
        if not out.get('finite', True):
            fs.append(Failure('non-finite-output', ''))
        return fs

    def tags(self, case, out):
        cap = (case['args'] or {}).get('max_imfs')
        t = ['args=' + ('None' if case['args'] is None else 'uncapped' if cap is None else 'capped')]
        if not isinstance(out, ImplError):
            t.append('n1=%d' % out['n1'])
            if cap is not None:
                t.append('cap%sn1' % ('<' if cap < out['n1'] else '>' if cap > out['n1'] else '='))
            if any(w < out['cap2'] for w in out['widths']):
                t.append('padded-block')
        return t

    def nontrivial(self, case, out):
        return not isinstance(out, ImplError) and any(w < out['cap2'] for w in out['widths'])


class MaskSecondLayer(Stream):
    """mask_sift_second_layer: one mask sift per first-layer column with mask_freqs[ii:], zero padded to the cap"""
    name = 'mask_second_layer'
    parallel = False          # get_next_imf_mask opens its own multiprocessing pool

    FREQS = [0.3, 0.15, 0.07, 0.03, 0.012, 0.005]

    def corpus(self):
        x = S.fr_list(_tones(128, 4))
        c = [{'x': x, 'cap1': 3, 'freqs': self.FREQS[:m], 'kind': 'array', 'args': a}
             for m, a in ((5, None), (5, {}), (5, {'max_imfs': 2}), (5, {'max_imfs': 5}), (3, None), (3, {'max_imfs': 4}),
                          (2, None), (1, {'max_imfs': 2}))]       # the last two: fewer masks than first-layer columns
        c.append({'x': x, 'cap1': 3, 'freqs': self.FREQS[:4], 'kind': 'list', 'args': {'mask_amp_mode': 'ratio_sig', 'nphases': 2}})
        c.append({'x': x, 'cap1': 1, 'freqs': self.FREQS[:1], 'kind': 'tuple', 'args': None})
        return c

    def generate(self, rng, tier):
        for i in range(200 if tier == 'thorough' else 30):
            fam = rng.choice(['noise', 'tones', 'tones', 'walk', 'amfm'])
            x = S.gen_signal(rng, fam, rng.choice([48, 64, 96]))
            cap1 = rng.choice([1, 2, 3, 4])
            m = rng.randint(1, 6)
            f0 = rng.uniform(0.2, 0.45)
            freqs = [round(f0 / (2 ** j), 5) for j in range(m)]
            u = rng.random()
            args = None if u < 0.2 else {} if u < 0.35 else {'max_imfs': rng.randint(1, 6)}
            if args is not None and rng.random() < 0.5:
                args.update(rng.choice([{'mask_amp_mode': 'ratio_sig'}, {'mask_amp': 0.5, 'mask_amp_mode': 'abs'}, {'nphases': 2},
                                        {'sift_thresh': 1e-6}, {'mask_freqs': 'zc'}]))
            yield {'x': S.fr_list(x), 'cap1': cap1, 'freqs': freqs, 'kind': rng.choice(['array', 'array', 'list', 'tuple']), 'args': args}

    @staticmethod
    def _freqs(case):
        f = case['freqs']
        return np.array(f) if case['kind'] == 'array' else tuple(f) if case['kind'] == 'tuple' else list(f)

    def impl(self, case):
        import emd
        x = np.array(case['x'], dtype=float)
        with S.time_limit(IMPL_TIMEOUT * 3):
            ia = np.abs(np.asarray(emd.sift.sift(x, max_imfs=case['cap1']))) + 0.0
            args = None if case['args'] is None else dict(case['args'])
            a2 = dict(case['args'] or {})
            cap2 = a2.get('max_imfs', ia.shape[1])
            a2['max_imfs'] = cap2
            freqs = self._freqs(case)
            inner, widths = [], []
            for i in range(ia.shape[1]):
                a2['mask_freqs'] = freqs[i:]
                if len(freqs[i:]) == 0:
                    break                           # nothing the public mask_sift could be asked for
                t = np.asarray(emd.sift.mask_sift(ia[:, i], **a2))
                inner.append(t)
                widths.append(t.shape[1])
            res = {'n1': ia.shape[1], 'cap2': cap2, 'widths': widths, 'nfreqs': len(freqs)}
            try:
                r = np.asarray(emd.sift.mask_sift_second_layer(ia, freqs, sift_args=args))
                res['shape'] = list(r.shape)
                res['finite'] = _finite(r)
                ok = r.ndim == 3 and r.shape[1] == ia.shape[1] == len(inner)
                blocks = []
                for i in range(ia.shape[1] if ok else 0):
                    w = inner[i].shape[1]
                    blocks.append(bool(w <= r.shape[2] and np.array_equal(r[:, i, :w], inner[i]) and not np.any(r[:, i, w:])))
                res['blocks'] = blocks
            except Exception as e:  # noqa
                res['error'] = err_kind(e)
                res['msg'] = str(e)[:200]
            res['args_mutated'] = (args != case['args'])
        return res

    def ops(self, case, out):
        if isinstance(out, ImplError):
            return []
        cap = (case['args'] or {}).get('max_imfs')
        # columns beyond the masks get width 1 (never reached: the model stops at the first exhausted column)
        ws = out['widths'] + [1] * (out['n1'] - len(out['widths']))
        return [proto.op('ML2-SHAPE', {'cap': 'none' if cap is None else str(cap), 'nfreqs': out['nfreqs']}, [ws])]

    def compare(self, case, out, results):
        if isinstance(out, ImplError):
            return None
        r = results[0]
        if r.status == 'err':
            # the model raises IndexError exactly when the masks run out before the first-layer columns do
            if 'error' in out and r.words[:1] == [out['error']] and int(r.args['col']) == out['nfreqs'] == len(out['widths']):
                return None
            return 'model: %s; impl %s' % (r.raw[:60], out.get('error', out.get('shape')))
        if not r.ok:
            return 'model: ' + r.raw[:100]
        if 'error' in out:
            return 'model shape [n, %s, %s]; impl raised %s' % (r.args['d1'], r.args['d2'], out['error'])
        if out['shape'][1:] != [int(r.args['d1']), int(r.args['d2'])]:
            return 'model shape [n, %s, %s]; impl %s' % (r.args['d1'], r.args['d2'], out['shape'])
        filled = [int(v) for v in (r.vecs[0] or [])]
        if filled != out['widths']:
            return 'model fills %s columns per block, inner mask sifts have %s' % (filled, out['widths'])
        return None

    def holds(self, case, out):
        if isinstance(out, ImplError):
            return [Failure('does-not-terminate' if out['error'] == 'Timeout' else 'harness-crashed:' + out['error'], out.get('msg', ''))]
        cap = (case['args'] or {}).get('max_imfs')
        how = 'sift_args=None' if case['args'] is None else 'uncapped' if cap is None else \
            'cap-below-first-layer' if cap < out['n1'] else 'cap-above-first-layer' if cap > out['n1'] else 'cap-equals-first-layer'
        fs = []
        if out['args_mutated']:
            fs.append(Failure('sift-args-mutated', 'the caller\'s sift_args dict was modified'))
        if out['nfreqs'] < out['n1']:
            # fewer masks than first-layer components: nothing is documented to be returned; the code raises IndexError
            if 'error' not in out:
                fs.append(Failure('mask-second-layer-returns-without-masks', 'n1=%d nfreqs=%d shape=%s' % (out['n1'], out['nfreqs'], out['shape'])))
            return fs
        if 'error' in out:
            return fs + [Failure('mask-second-layer-raises:%s:%s' % (out['error'], how), out['msg'])]
        n = len(case['x'])
        if out['shape'] != [n, out['n1'], out['cap2']]:
            fs.append(Failure('wrong-shape:' + how, 'expected [%d, %d, %d], got %s' % (n, out['n1'], out['cap2'], out['shape'])))
        elif not all(out['blocks']):
            fs.append(Failure('mask-second-layer-block-differs:' + how,
                              'blocks equal to mask_sift(IA[:, i], mask_freqs[i:]) zero padded: %s' % out['blocks']))
        for i, w in enumerate(out['widths']):
            if w > min(out['cap2'], out['nfreqs'] - i):
                fs.append(Failure('more-components-than-cap', 'column %d: %d components, max_imfs=%d, %d masks left'
                                  % (i, w, out['cap2'], out['nfreqs'] - i)))
                break
        if not out.get('finite', True):
            fs.append(Failure('non-finite-output', ''))
        return fs

    def tags(self, case, out):
        cap = (case['args'] or {}).get('max_imfs')
        t = ['args=' + ('None' if case['args'] is None else 'uncapped' if cap is None else 'capped'), 'freqs=' + case['kind']]
        if not isinstance(out, ImplError):
            t.append('n1=%d' % out['n1'])
            t.append('nfreqs%sn1' % ('<' if out['nfreqs'] < out['n1'] else '>' if out['nfreqs'] > out['n1'] else '='))
            if 'error' in out:
                t.append('raises:' + out['error'])
            if any(w < out['cap2'] for w in out['widths']):
                t.append('padded-block')
            if any(w == out['nfreqs'] - i < out['cap2'] for i, w in enumerate(out['widths'])):
                t.append('cap-lowered-to-masks-left')
        return t

    def nontrivial(self, case, out):
        return not isinstance(out, ImplError) and 'error' not in out and any(w < out['cap2'] for w in out['widths'])


STREAMS = [CapPrefix(), MaskCaps(), EnsembleShape(), CeemdShape(), SecondLayer(), MaskSecondLayer()]
