"""C03 — IMFs are peeled one at a time from the running residual; caps are respected."""
import os
import shutil
import tempfile

import numpy as np

from common import proto
from common.framework import Failure, ImplError, Stream, err_kind
from props import _sift as S
from props import c01

ID = 'C03'
LEAN_MODULES = ['Proofs.C03']
REQUIRED = ['C03.sift_col_eq_extract', 'C03.sift_cap_prefix', 'C03.sift_cols_le_cap', 'C03.maskSift_col_eq_extract',
            'C03.maskSift_cols_le_cap', 'C03.maskSift_cap_prefix', 'C03.ensemble_cols_le_cap', 'C03.ensembleSift_cols_le_cap',
            'C03.ceemd_cols_le_cap', 'C03.secondLayer_shape', 'C03.secondLayer_block', 'C03.secondLayer_over_sift',
            'C03.maskSecondLayer_shape', 'C03.maskSecondLayer_block', 'C03.maskSecondLayer_ok_iff', 'C03.maskSecondLayer_over_maskSift',
            'C03.maskSift_col_lengths', 'C03.ceemd_col_lengths',
            # cap law at the smallest caps: complete ensemble with max_imfs = 1 returns exactly the first ensemble step
            'C03.ceemd_cap_one']
TRUSTED = ['single-IMF extraction (get_next_imf / get_next_imf_mask) is an oracle table in the SIFT / MASKSIFT correspondence: row k '
           'holds the output of the real public function on the residual computed by the harness; the model replays its own loop and '
           'cap logic and rejects the table (oracle-desync) if a residual drifts by more than 1e-9*max(1,|x|)',
           'randomised variants (ensemble, complete ensemble): numpy global RNG is seeded per case; only shapes / caps / finiteness are '
           'compared; member widths are observed by wrapping the public attribute emd.sift.sift from the harness (log file, fork-safe)',
           'FINITENESS is not a theorem (Q has no inf/NaN): decided by np.isfinite on the implementation output only (partial claim)',
           'mask cosines, std, noise draws, the ensemble mean values are library numerics: not modelled here (C07/C08)']
ASSUMPTIONS = ['mask_sift is called with an integer max_imfs (the code requires it); caps are >= 1',
               'sift_second_layer is used with sift_func=emd.sift.sift',
               'mask_sift_second_layer is called with an array-like mask_freqs (list / tuple / ndarray; a string or float cannot be '
               'sliced per column) and without ret_mask_freq; with fewer masks than first-layer components it raises IndexError '
               '(modelled: L2Result.indexError, compared exactly; nothing is documented to be returned there)']
RULE = ('classic: random signals (9 families) x imf options x caps k = 1..K+2 (K = components of the uncapped run) x input layouts '
        '(n,), (n,1); mask: signals x mask_freqs {zc, float, user list shorter/longer than cap} x amp modes x nphases x caps; '
        'ensemble / complete ensemble: seeded runs x nensembles x noise mode x caps incl. caps above the available components; '
        'second layer: first-layer caps x sift_args {None, {}, max_imfs below/equal/above the first-layer count}; '
        'mask second layer: the same x number of masks 1..6 (below/equal/above the first-layer count) x list/tuple/array x mask options. '
        'mask_amp is a scalar or a float array with one amplitude per IMF; the argument objects (mask_amp / mask_freqs arrays) are created once per case '
        'and shared by the run with the largest cap and all capped runs. Manual peeling is compared within 1e-9*max(1,|x|) (classic: literal unless a '
        'stop / extrema decision of the peeled layers lies within 1e-7 of its threshold; masked: mechanism-level); prefix equality of capped runs is exact. '
        'Not judged (skipped and tagged): time-outs, the documented convergence error of the extraction layer, mask_sift_second_layer with fewer masks than '
        'first-layer components. Mechanism-level: third dimension of second-layer results beyond "<= requested cap", merging of ragged ensemble members, '
        'noise-extra shape, (n,1) layout equality, caller dictionary left untouched. '
        'Non-trivial: a cap that actually truncates (k < K), a ragged ensemble, or a padded second-layer block; distinct by content hash.')

IMPL_TIMEOUT = 40
BASE = {'stop_method': 'sd', 'sd_thresh': 0.1, 'env_step_size': 1, 'max_iters': 1000, 'interp_method': 'splrep',
        'pad_width': 2, 'energy_thresh': None}


def _tones(n, seed=0):
    t = np.arange(n)
    r = np.random.default_rng(seed)
    return (np.sin(2 * np.pi * 0.21 * t + r.uniform(0, 6)) + 0.6 * np.sin(2 * np.pi * 0.07 * t) + 0.4 * np.sin(2 * np.pi * 0.023 * t)
            + t / max(1, n) + 0.05 * r.standard_normal(n))


def _finite(a):
    return bool(np.all(np.isfinite(np.asarray(a, dtype=float))))


NOT_JUDGED = ('Timeout', 'EMDSiftCovergeError')     # run time is not C03's subject; the convergence error is the documented
#                                                      answer of the extraction layer (no components are returned: C03 is vacuous)


def _impl_error(out, what='harness-crashed'):
    """verdict for an exception that escaped impl(): time-outs / the documented convergence error are not judged (skipped and
    tagged); anything else that reaches this point is a problem of the harness wrapper or a raise of the library"""
    if out['error'] in NOT_JUDGED:
        return []
    return [Failure('%s:%s' % (what, out['error']), out.get('msg', ''), literal=(what == 'raises'))]


def _skip_if_not_judged(out):
    return 'skip:' + out['error'].lower() if isinstance(out, ImplError) and out['error'] in NOT_JUDGED else None


def _peel_tie_margin(rows, o, upto):
    """smallest decision margin met while extracting layers 0..upto from the harness residuals: the stop rule's relative margin
    (S.reference) and the smallest gap between neighbouring samples of every iterate relative to the signal scale (an extremum that
    exists by a rounding error).  Exact ties of the raw input (layer 0, iterate 0) are robust and do not count."""
    marg = 1.0
    for k, row in enumerate(rows[:upto + 1]):
        r = np.asarray(row[0], dtype=float)
        scale = S.scale_of(r)
        try:
            ref = S.reference(r, o, extra=0)
        except Exception:  # noqa
            return 0.0
        marg = min(marg, ref['margin'])
        for j, (h, U, L) in enumerate(ref['rows']):
            d = np.abs(np.diff(h))
            if k == 0 and j == 0:
                d = d[d > 0]
            if d.size:
                marg = min(marg, float(d.min()) / scale)
    return marg


# ---------------------------------------------------------------------------------------------------------

class CapPrefix(Stream):
    """classic sift: capped vs. uncapped runs, manual peeling, input layouts"""
    name = 'sift_caps'

    def corpus(self):
        c = [{'x': S.fr_list(_tones(64)), 'opts': dict(BASE), 'thr': 1e-8, 'family': 'corpus-tones'},
             {'x': [0.0, 1.0, 2.0, 3.0, 4.0], 'opts': dict(BASE), 'thr': 1e-8, 'family': 'corpus-ramp'},
             {'x': [-0.61, -0.54, -0.88, 2.33, 1.75, 1.47, 1.42, 2.76],
              'opts': dict(BASE, stop_method='rilling', rilling_thresh=[0.05, 1.0, 0.1], max_iters=50), 'thr': 1e-8, 'family': 'corpus-d2'}]
        return c

    def generate(self, rng, tier):
        ncase = 1200 if tier == 'thorough' else 160
        nmax = 128 if tier == 'thorough' else 64
        for i in range(ncase):
            fam = rng.choice(['noise', 'noise', 'walk', 'tones', 'tones', 'amfm', 'plateau', 'ramp', 'fewext', 'shortnoise', 'perfect'])
            if fam == 'shortnoise':
                n, f2 = rng.randint(5, 16), 'noise'
            else:
                n, f2 = rng.choice([8, 16, 24, 32, 48, 64, nmax]), fam
            o = S.gen_opts(rng, tier, allow_energy=False, family=f2)
            if o['stop_method'] == 'fixed' and o['max_iters'] > 10:
                o['max_iters'] = rng.choice([3, 5, 10])
            if o['stop_method'] != 'fixed' and o['max_iters'] < 10:
                o['max_iters'] = 50
            if rng.random() < 0.5:
                o['env_step_size'] = 1
            if o['env_step_size'] != 1 and n > 64:
                n = 64            # small steps give ~100 components: keep every legitimate call well below the time limit
            x = S.gen_signal(rng, f2, n)
            thr = 1e-8 if rng.random() < 0.85 else 0.3 * max(1.0, float(np.max(np.abs(x))))
            yield {'x': S.fr_list(x), 'opts': o, 'thr': thr, 'family': fam}

    def impl(self, case):
        x, o = np.array(case['x'], dtype=float), case['opts']
        out = {}
        try:
            with S.time_limit(IMPL_TIMEOUT):
                full = np.asarray(c01._call_sift(x, o, case['thr'], None))
        except Exception as e:  # noqa
            return {'error': err_kind(e), 'msg': str(e)[:200]}
        K0 = full.shape[1]
        out['full_shape'] = list(full.shape)
        out['finite'] = _finite(full)
        caps = {}
        for k in self._caps(K0):
            try:
                with S.time_limit(IMPL_TIMEOUT):
                    c = np.asarray(c01._call_sift(x, o, case['thr'], k))
                caps[str(k)] = {'shape': list(c.shape), 'prefix_equal': bool(np.array_equal(c, full[:, :k])),
                                'finite': _finite(c)}
            except Exception as e:  # noqa
                caps[str(k)] = {'error': err_kind(e)}
        out['caps'] = caps
        # layouts: (n,1) column input
        try:
            import emd
            with S.time_limit(IMPL_TIMEOUT):
                c2 = np.asarray(emd.sift.sift(x[:, None].copy(), **S.sift_kwargs(o, case['thr'], None)))
            out['layout_equal'] = bool(np.array_equal(c2, full))
        except Exception as e:  # noqa
            out['layout_equal'] = 'raises:' + err_kind(e)
        try:
            with S.time_limit(2 * IMPL_TIMEOUT):
                rows = c01._peel(x, o, K0 + 2, with_paths=False)
        except S.Timeout:
            out['peel_timeout'] = True
            return out
        out['table'] = [[S.fr_list(r), None if c is None else S.fr_list(c), f, err, None] for r, c, f, err, _ in rows]
        # "component k is the single-IMF extraction applied to the input minus the first k-1 components": how that residual is rounded
        # is not fixed by the statement, so the comparison is within 1e-9*max(1,|x|); a mismatch next to a decision at rounding
        # distance (stop rule, an extremum created by rounding) is a near tie, not a failure
        scale = S.scale_of(x)
        bad = None
        for k in range(K0):
            if k >= len(rows) or rows[k][1] is None:
                bad = k
                break
            if not (np.array_equal(rows[k][1], full[:, k]) or S.close(rows[k][1], full[:, k], scale)):
                bad = k
                break
        out['peel_equal'] = bad is None
        if bad is not None:
            out['peel_bad_layer'] = bad
            try:
                with S.time_limit(IMPL_TIMEOUT):
                    out['peel_tie_margin'] = _peel_tie_margin(rows, o, bad)
            except Exception:  # noqa
                out['peel_tie_margin'] = 0.0
        return out

    @staticmethod
    def _caps(K0):
        """all caps 1..K+2 for runs of up to 10 components, a spread of at most 12 caps otherwise"""
        if K0 <= 10:
            return list(range(1, K0 + 3))
        mid = [max(1, (K0 * j) // 6) for j in range(1, 6)]
        return sorted(set([1, 2, 3] + mid + [K0 - 1, K0, K0 + 1, K0 + 2]))

    def _caps_for_ops(self, out):
        K0 = out['full_shape'][1]
        ks = sorted(set([1, 2, K0 - 1, K0, K0 + 1, K0 + 2]) & set(range(1, K0 + 3)))
        return [None] + ks

    def ops(self, case, out):
        if isinstance(out, ImplError) or 'error' in out or 'table' not in out:
            return []
        rows = [tuple(r) for r in out['table']]
        return [S.sift_op(case['x'], case['thr'], k, rows) for k in self._caps_for_ops(out)]

    def compare(self, case, out, results):
        if isinstance(out, ImplError):
            return _skip_if_not_judged(out) or 'harness impl wrapper raised %s' % out['error']
        if 'error' in out:
            return 'skip:timeout' if out['error'] == 'Timeout' else None      # uncapped run raises (convergence error): covered by C01 / C04
        if 'table' not in out:
            return 'skip:peeling-timeout'
        for k, r in zip(self._caps_for_ops(out), results):
            if r.status in ('bad-op', 'oracle-desync'):
                return 'cap=%s: %s' % (k, r.raw[:160])
            if r.status == 'err':
                return 'cap=%s: model raises, impl returned' % k
            if float(r.args['margin']) < S.TIE:
                return 'skip:near-tie'
            want = out['full_shape'][1] if k is None else out['caps'][str(k)].get('shape', [0, -1])[1]
            if r.args['exit'] == 'fuel' or int(r.args['ncols']) != want:
                return 'cap=%s: model %s components (%s), impl %s' % (k, r.args['ncols'], r.args['exit'], want)
        return None

    def holds(self, case, out):
        if isinstance(out, ImplError):
            return _impl_error(out)
        if 'error' in out:
            return [] if out['error'] in NOT_JUDGED else [Failure('raises:' + out['error'], out['msg'])]
        n = len(case['x'])
        K0 = out['full_shape'][1]
        fs = []
        if out['full_shape'][0] != n:
            fs.append(Failure('wrong-shape', str(out['full_shape'])))
        if not out['finite']:
            fs.append(Failure('non-finite-output', 'uncapped'))
        for k in self._caps(K0):
            c = out['caps'][str(k)]
            if 'error' in c:
                if c['error'] not in NOT_JUDGED:
                    fs.append(Failure('capped-run-raises:' + c['error'], 'max_imfs=%d' % k))
                continue
            if c['shape'][0] != n or len(c['shape']) != 2:
                fs.append(Failure('wrong-shape', 'max_imfs=%d -> %s' % (k, c['shape'])))
            if c['shape'][1] > k:
                fs.append(Failure('more-components-than-cap', 'max_imfs=%d -> %d components' % (k, c['shape'][1])))
            elif c['shape'][1] != min(k, K0):
                fs.append(Failure('capped-run-wrong-count', 'max_imfs=%d -> %d components, uncapped run has %d' % (k, c['shape'][1], K0)))
            elif not c['prefix_equal']:
                fs.append(Failure('capped-run-not-prefix-of-uncapped', 'max_imfs=%d' % k))
            if not c['finite']:
                fs.append(Failure('non-finite-output', 'max_imfs=%d' % k))
        if not out.get('peel_equal', True) and out.get('peel_tie_margin', 1.0) >= S.TIE:
            fs.append(Failure('manual-peeling-differs-from-sift', 'get_next_imf on x - sum(first k components) does not reproduce component k=%s '
                              'within 1e-9*max(1,|x|) (smallest decision margin on the way %.3g)'
                              % (out.get('peel_bad_layer'), out.get('peel_tie_margin', 1.0))))
        if out['layout_equal'] is not True and out['layout_equal'] not in ('raises:Timeout', 'raises:EMDSiftCovergeError'):
            # input layouts are C19's subject; C03 is silent: mechanism-level
            fs.append(Failure('layout-dependent-result', '(n,1) input: %s' % out['layout_equal'], literal=False))
        seen = {}
        for f in fs:
            seen.setdefault(f.kind, f)
        return list(seen.values())

    def tags(self, case, out):
        t = ['family=' + case['family'], 'stop=' + case['opts']['stop_method']]
        if not isinstance(out, ImplError) and 'error' not in out:
            K0 = out['full_shape'][1]
            t.append('K=%s' % (K0 if K0 <= 3 else '4-6' if K0 <= 6 else '>6'))
        elif not isinstance(out, ImplError):
            t.append('uncapped-raises:' + out['error'])
        if not isinstance(out, ImplError) and not out.get('peel_equal', True) and out.get('peel_tie_margin', 1.0) < S.TIE:
            t.append('skip:manual-peeling-near-tie')
        return t

    def nontrivial(self, case, out):
        return not isinstance(out, ImplError) and 'error' not in out and out['full_shape'][1] >= 2

    def shrink(self, case):
        x = case['x']
        n = len(x)
        for cut in (n // 2, n // 4, 1):
            if 0 < cut and n - cut >= 3:
                yield dict(case, x=x[cut:])
                yield dict(case, x=x[:n - cut])


# ---------------------------------------------------------------------------------------------------------

def _mask_args(case):
    """the argument OBJECTS of one case, created once and handed to every mask_sift call of the case (the run with the largest cap,
    the capped runs): "the first k components of the uncapped run" is a statement about runs made with the very same arguments, and
    a caller who keeps his mask_amp / mask_freqs arrays and only varies max_imfs is the ordinary way of making them (round-3 seeded
    change: a float mask_amp array was rescaled in place by ratio_sig, so every later call saw other amplitudes)"""
    amp, mf = case['amp'], case['freqs']
    return {'mask_amp': np.array(amp, dtype=float) if isinstance(amp, list) else amp,
            'mask_freqs': np.array(mf) if isinstance(mf, list) else mf}


def _mask_kwargs(case, cap, shared=None):
    shared = shared or _mask_args(case)
    kw = {'max_imfs': cap, 'mask_amp': shared['mask_amp'], 'mask_amp_mode': case['amp_mode'], 'nphases': case['nphases'],
          'nprocesses': 1, 'sift_thresh': case['thr'], 'mask_freqs': shared['mask_freqs']}
    return kw


def _mask_peel(x, case, freqs, layers):
    """manual peeling with the public get_next_imf_mask, mask frequency / amplitude per layer as documented"""
    import emd
    X = np.array(x, dtype=float)[:, None]
    rows = []
    r = X.copy()
    imf = None
    for k in range(layers):
        if k >= len(freqs):
            break
        if case['amp_mode'] == 'abs':
            sd = 1
        elif case['amp_mode'] == 'ratio_sig' or k == 0:
            sd = X.std()
        else:
            sd = imf[:, -1].std()
        a = case['amp'][k] if isinstance(case['amp'], list) else case['amp']      # the pristine case value, not a shared array
        amp = a * sd
        c, f = emd.sift.get_next_imf_mask(r.copy(), freqs[k], amp, nphases=case['nphases'], nprocesses=1)
        rows.append((r[:, 0].copy(), c[:, 0].copy(), bool(f), None, None))
        imf = c if imf is None else np.concatenate((imf, c), axis=1)
        r = X - imf.sum(axis=1)[:, None]
    return rows


class MaskCaps(Stream):
    name = 'mask_caps'
    parallel = False          # get_next_imf_mask opens its own multiprocessing pool

    def corpus(self):
        x = S.fr_list(_tones(96, 1))
        return [{'x': x, 'freqs': 'zc', 'amp': 1, 'amp_mode': 'ratio_imf', 'nphases': 4, 'thr': 1e-8, 'kmax': 5},
                {'x': x, 'freqs': [0.3, 0.1, 0.04], 'amp': 1, 'amp_mode': 'ratio_sig', 'nphases': 2, 'thr': 1e-8, 'kmax': 5},
                {'x': x, 'freqs': 0.25, 'amp': 0.5, 'amp_mode': 'abs', 'nphases': 4, 'thr': 1e-8, 'kmax': 4},
                # per-IMF amplitudes as a float array shared by all runs of the case (see _mask_args); the signal's std is not 1
                {'x': [3.0 * v for v in x], 'freqs': 'zc', 'amp': [2.0, 1.5, 1.0, 1.0, 0.5, 0.5], 'amp_mode': 'ratio_sig', 'nphases': 4,
                 'thr': 1e-8, 'kmax': 5},
                {'x': [3.0 * v for v in x], 'freqs': [0.3, 0.1, 0.04, 0.02], 'amp': [2.0, 1.5, 1.0, 1.0, 0.5], 'amp_mode': 'ratio_imf',
                 'nphases': 2, 'thr': 1e-8, 'kmax': 4}]

    def generate(self, rng, tier):
        for i in range(160 if tier == 'thorough' else 24):
            fam = rng.choice(['noise', 'tones', 'tones', 'amfm', 'walk'])
            n = rng.choice([32, 48, 64, 96])
            x = S.gen_signal(rng, fam, n)
            u = rng.random()
            if u < 0.35:
                freqs = 'zc'
            elif u < 0.55:
                freqs = round(rng.uniform(0.05, 0.45), 3)
            else:
                m = rng.randint(1, 6)
                f0 = rng.uniform(0.2, 0.45)
                freqs = [round(f0 / (2 ** j), 5) for j in range(m)]
            kmax = rng.choice([3, 4, 5, 6])
            amp = rng.choice([1, 1, 0.5, 2])
            if rng.random() < 0.35:
                amp = [rng.choice([0.5, 1.0, 1.5, 2.0]) for _ in range(kmax + 1)]       # one amplitude per IMF (float array)
                if rng.random() < 0.7:
                    x = x * rng.choice([0.2, 3.0, 25.0])                               # std(x) != 1
            yield {'x': S.fr_list(x), 'freqs': freqs, 'amp': amp,
                   'amp_mode': rng.choice(['ratio_imf', 'ratio_sig', 'ratio_sig', 'abs']), 'nphases': rng.choice([1, 2, 4, 4]),
                   'thr': 1e-8, 'kmax': kmax}

    def impl(self, case):
        import emd
        x = np.array(case['x'], dtype=float)
        kmax = case['kmax']
        out = {}
        shared = _mask_args(case)
        with S.time_limit(IMPL_TIMEOUT * 3):
            full, freqs = emd.sift.mask_sift(x.copy(), ret_mask_freq=True, **_mask_kwargs(case, kmax, shared))
            full = np.asarray(full)
            K0 = full.shape[1]
            out['full_shape'] = list(full.shape)
            out['finite'] = _finite(full)
            out['nfreqs'] = len(case['freqs']) if isinstance(case['freqs'], list) else None
            caps = {}
            for k in sorted(set([1, 2, K0, kmax, kmax + 1]) & set(range(1, kmax + 2))):
                try:
                    c = np.asarray(emd.sift.mask_sift(x.copy(), **_mask_kwargs(case, k, shared)))
                    caps[str(k)] = {'shape': list(c.shape), 'prefix_equal': bool(c.shape[1] <= K0 and np.array_equal(c, full[:, :c.shape[1]])),
                                    'finite': _finite(c)}
                except Exception as e:  # noqa
                    caps[str(k)] = {'error': err_kind(e)}
            out['caps'] = caps
            rows = _mask_peel(x, case, list(np.asarray(freqs, dtype=float)), K0 + 1)
            out['table'] = [[S.fr_list(r), S.fr_list(c), f, None, None] for r, c, f, _, _ in rows]
            scale = S.scale_of(x)
            out['peel_equal'] = len(rows) >= K0 and all(np.array_equal(rows[k][1], full[:, k]) or S.close(rows[k][1], full[:, k], scale)
                                                        for k in range(K0))
        return out

    def _op(self, case, out, k):
        rows = [tuple(r) for r in out['table']]
        args = {'thr': case['thr'], 'cap': str(int(k)), 'tol': S.TOL * S.scale_of(case['x']),
                'nfreqs': 'none' if out['nfreqs'] is None else str(out['nfreqs'])}
        flags = [1 if f else 0 for _, c, f, _, _ in rows]
        vecs = [list(map(float, case['x'])), flags]
        for r, c, f, e, _ in rows:
            vecs += [list(map(float, r)), list(map(float, c))]
        return proto.op('MASKSIFT-PEEL', args, vecs)

    def _ks(self, case, out):
        return [case['kmax']] + [int(k) for k in sorted(out['caps'], key=int) if int(k) < case['kmax']]

    def ops(self, case, out):
        if isinstance(out, ImplError):
            return []
        return [self._op(case, out, k) for k in self._ks(case, out)]

    def compare(self, case, out, results):
        if isinstance(out, ImplError):
            return _skip_if_not_judged(out)
        for k, r in zip(self._ks(case, out), results):
            want = out['full_shape'][1] if k == case['kmax'] else out['caps'][str(k)].get('shape', [0, -1])[1]
            if not r.ok:
                return 'cap=%s: %s' % (k, r.raw[:160])
            if float(r.args['margin']) < S.TIE:
                return 'skip:near-tie'
            if r.args['exit'] == 'fuel':
                # the table has K0+1 rows at most (never beyond the available frequencies)
                if int(r.args['ncols']) == want:
                    continue
            if int(r.args['ncols']) != want:
                return 'cap=%s: model %s components (%s), impl %s' % (k, r.args['ncols'], r.args['exit'], want)
        return None

    def holds(self, case, out):
        if isinstance(out, ImplError):
            return _impl_error(out, 'raises')
        n = len(case['x'])
        K0 = out['full_shape'][1]
        lim = case['kmax'] if out['nfreqs'] is None else min(case['kmax'], out['nfreqs'])
        fs = []
        if out['full_shape'][0] != n:
            fs.append(Failure('wrong-shape', str(out['full_shape'])))
        if K0 > lim:
            # literal against the REQUESTED cap; "not more than the user supplied masks" is the code's own reconciliation
            fs.append(Failure('more-components-than-cap', 'max_imfs=%d, %s user frequencies -> %d components' % (case['kmax'], out['nfreqs'], K0),
                              literal=K0 > case['kmax']))
        if not out['finite']:
            fs.append(Failure('non-finite-output', ''))
        for ks, c in out['caps'].items():
            k = int(ks)
            if 'error' in c:
                if c['error'] not in NOT_JUDGED:
                    fs.append(Failure('capped-run-raises:' + c['error'], 'max_imfs=%d' % k))
                continue
            limk = k if out['nfreqs'] is None else min(k, out['nfreqs'])
            if c['shape'][0] != n:
                fs.append(Failure('wrong-shape', 'max_imfs=%d -> %s' % (k, c['shape'])))
            if c['shape'][1] > limk:
                fs.append(Failure('more-components-than-cap', 'max_imfs=%d -> %d' % (k, c['shape'][1]), literal=c['shape'][1] > k))
            elif k <= case['kmax'] and c['shape'][1] != min(k, K0):
                fs.append(Failure('capped-run-wrong-count', 'max_imfs=%d -> %d, max_imfs=%d -> %d' % (k, c['shape'][1], case['kmax'], K0)))
            elif k <= case['kmax'] and not c['prefix_equal']:
                fs.append(Failure('capped-run-not-prefix-of-uncapped', 'max_imfs=%d' % k))
            if not c['finite']:
                fs.append(Failure('non-finite-output', 'max_imfs=%d' % k))
        if not out['peel_equal']:
            # within 1e-9*max(1,|x|); the harness re-derives the mask amplitude (std rule) and cannot measure the decision margins of
            # the masked extractions here (C02's replay does): mechanism-level; the literal half is the prefix equality above
            fs.append(Failure('manual-peeling-differs-from-mask-sift', 'get_next_imf_mask on x - sum(first k components) with the documented '
                              'mask frequency / amplitude does not reproduce component k within tolerance', literal=False))
        seen = {}
        for f in fs:
            seen.setdefault(f.kind, f)
        return list(seen.values())

    def tags(self, case, out):
        t = ['freqs=' + ('list' if isinstance(case['freqs'], list) else 'float' if isinstance(case['freqs'], float) else case['freqs']),
             'amp_mode=' + case['amp_mode'], 'nphases=%d' % case['nphases'],
             'mask_amp=' + ('float-array(shared)' if isinstance(case['amp'], list) else 'scalar')]
        if not isinstance(out, ImplError):
            t.append('K=%d' % out['full_shape'][1])
            if out['nfreqs'] is not None and out['nfreqs'] < case['kmax']:
                t.append('cap-lowered-to-nfreqs')
        return t

    def nontrivial(self, case, out):
        return not isinstance(out, ImplError) and out['full_shape'][1] >= 2


# ---------------------------------------------------------------------------------------------------------

class _SiftWidthLog:
    """wrap the public attribute emd.sift.sift so that every call appends its column count to a file
    (visible across the forked pool worker)"""

    def __enter__(self):
        import emd
        self.dir = tempfile.mkdtemp(prefix='c03-')
        self.path = os.path.join(self.dir, 'widths')
        self.mod = emd.sift
        self.orig = emd.sift.sift
        orig, path = self.orig, self.path

        def logged(*a, **kw):
            r = orig(*a, **kw)
            with open(path, 'a') as f:
                f.write('%d\n' % np.asarray(r).shape[1])
            return r
        self.mod.sift = logged
        return self

    def widths(self):
        if not os.path.exists(self.path):
            return []
        return [int(l) for l in open(self.path).read().split()]

    def __exit__(self, *a):
        self.mod.sift = self.orig
        shutil.rmtree(self.dir, ignore_errors=True)


class EnsembleShape(Stream):
    name = 'ensemble_shape'
    parallel = False

    def corpus(self):
        x12 = [0.3, -1.2, 0.8, -0.1, 1.7, -2.0, 0.4, 0.9, -0.6, 1.1, -1.4, 0.2]
        return [{'x': x12, 'nens': 4, 'noise': 0.2, 'mode': 'single', 'cap': 5, 'seed': 0},       # D3: members narrower than the cap
                {'x': x12, 'nens': 4, 'noise': 0.2, 'mode': 'single', 'cap': None, 'seed': 0},    # D3: member narrower than member 0
                {'x': S.fr_list(_tones(96, 2)), 'nens': 3, 'noise': 0.1, 'mode': 'single', 'cap': 2, 'seed': 1}]

    def generate(self, rng, tier):
        for i in range(400 if tier == 'thorough' else 60):
            fam = rng.choice(['noise', 'tones', 'walk', 'shortnoise', 'shortnoise', 'shortnoise'])
            n = rng.randint(8, 20) if fam == 'shortnoise' else rng.choice([24, 32, 64])
            x = S.gen_signal(rng, 'noise' if fam == 'shortnoise' else fam, n)
            yield {'x': S.fr_list(x), 'nens': rng.choice([1, 2, 4, 4, 6]), 'noise': rng.choice([0.0, 0.1, 0.2, 0.5, 1.0]),
                   'mode': 'single' if rng.random() < 0.8 else 'flip', 'cap': rng.choice([None, 1, 2, 3, 5, 8]),
                   'seed': rng.randint(0, 10 ** 6)}

    def impl(self, case):
        import emd
        x = np.array(case['x'], dtype=float)
        np.random.seed(case['seed'])
        with _SiftWidthLog() as log, S.time_limit(IMPL_TIMEOUT * 2):
            try:
                r = np.asarray(emd.sift.ensemble_sift(x, nensembles=case['nens'], ensemble_noise=case['noise'],
                                                      noise_mode=case['mode'], nprocesses=1, max_imfs=case['cap']))
                res = {'shape': list(r.shape), 'finite': _finite(r)}
            except Exception as e:  # noqa
                res = {'error': err_kind(e), 'msg': str(e)[:200]}
            res['widths'] = log.widths()
        return res

    def _member_widths(self, case, out):
        w = out['widths']
        if case['mode'] == 'flip':
            return [max(w[i:i + 2]) for i in range(0, len(w) - 1, 2)]
        return w

    def ops(self, case, out):
        if isinstance(out, ImplError) or not self._member_widths(case, out):
            return []
        return [proto.op('ENS-SHAPE', {'n': len(case['x'])}, [self._member_widths(case, out)])]

    def compare(self, case, out, results):
        if isinstance(out, ImplError) or not results:
            return _skip_if_not_judged(out) if isinstance(out, ImplError) else None
        r = results[0]
        if not r.ok:
            return 'model: ' + r.raw[:100]
        if 'error' in out:
            if out['error'] in NOT_JUDGED:
                return 'skip:' + out['error'].lower()
            if case['mode'] == 'flip' and out['error'] == 'ValueError':
                return None      # member construction failed before the averaging (instance check reports it)
            return 'model: %s components; impl raised %s (member widths %s)' % (r.args['ncols'], out['error'], out['widths'])
        if [int(r.args['rows']), int(r.args['ncols'])] != out['shape']:
            return 'model shape [%s, %s] (member widths %s), impl %s' % (r.args['rows'], r.args['ncols'], out['widths'], out['shape'])
        return None

    def holds(self, case, out):
        if isinstance(out, ImplError):
            return _impl_error(out)
        ragged = len(set(out['widths'])) > 1 or (case['cap'] is not None and out['widths'] and max(out['widths']) < case['cap'])
        if 'error' in out:
            if out['error'] in NOT_JUDGED:
                return []
            w = out['widths']
            if case['mode'] == 'flip' and out['error'] == 'ValueError' and 'broadcast' in out.get('msg', ''):
                # the + and - noise runs of one member differ in width: `imf += sift(...)` in _sift_with_noise
                return [Failure('raises:ValueError:flip-runs-with-different-component-counts',
                                'sift widths %s, max_imfs=%s: %s' % (w, case['cap'], out['msg']))]
            return [Failure('raises:%s%s' % (out['error'], ':members-with-different-component-counts' if ragged else ''),
                            'member widths %s, max_imfs=%s: %s' % (w, case['cap'], out['msg']))]
        fs = []
        if len(out['shape']) != 2 or out['shape'][0] != len(case['x']):
            fs.append(Failure('wrong-shape', str(out['shape'])))
        elif case['cap'] is not None and out['shape'][1] > case['cap']:
            fs.append(Failure('more-components-than-cap', 'max_imfs=%d -> %d' % (case['cap'], out['shape'][1])))
        elif out['widths'] and out['shape'][1] < max(out['widths']):
            # how ragged members are merged is not fixed by the statement (truncating to the common width also respects the cap), and
            # the widths are observed by wrapping the module attribute emd.sift.sift: mechanism-level
            fs.append(Failure('member-components-dropped', 'member widths %s but %d components returned' % (out['widths'], out['shape'][1]),
                              literal=False))
        if not out.get('finite', True):
            fs.append(Failure('non-finite-output', ''))
        return fs

    def tags(self, case, out):
        t = ['cap=%s' % case['cap'], 'nens=%d' % case['nens']]
        if not isinstance(out, ImplError):
            t.append('ragged' if len(set(out['widths'])) > 1 else 'uniform')
            if 'error' in out:
                t.append('raises:' + out['error'])
        return t

    def nontrivial(self, case, out):
        return not isinstance(out, ImplError) and len(set(out['widths'])) > 1


class CeemdShape(Stream):
    name = 'ceemd_shape'
    parallel = False

    def corpus(self):
        x = S.fr_list(_tones(128, 3))
        return [{'x': x, 'nens': 4, 'noise': 0.2, 'cap': k, 'seed': 0, 'thr': 1e-8} for k in (1, 2, 3, None)]   # D3: cap+2

    def generate(self, rng, tier):
        for i in range(250 if tier == 'thorough' else 40):
            fam = rng.choice(['noise', 'tones', 'tones', 'walk', 'amfm'])
            n = rng.choice([32, 64, 96, 128])
            x = S.gen_signal(rng, fam, n)
            yield {'x': S.fr_list(x), 'nens': rng.choice([1, 2, 4]), 'noise': rng.choice([0.1, 0.2, 0.5]),
                   'cap': rng.choice([None, 1, 2, 3, 4, 6, 10]), 'seed': rng.randint(0, 10 ** 6),
                   'thr': rng.choice([1e-8, 1e-8, 1e-8, 0.05])}

    def impl(self, case):
        import emd
        x = np.array(case['x'], dtype=float)
        np.random.seed(case['seed'])
        with S.time_limit(IMPL_TIMEOUT * 2):
            imf, noise = emd.sift.complete_ensemble_sift(x, nensembles=case['nens'], ensemble_noise=case['noise'],
                                                         nprocesses=1, max_imfs=case['cap'], sift_thresh=case['thr'])
        imf, noise = np.asarray(imf), np.asarray(noise)
        pk, th, marg = [], [], 1.0
        for j in range(1, imf.shape[1]):
            col = imf[:, j]
            pk.append(int(S.count_extrema(col)[0] < 2))
            m = float(np.abs(col).mean())
            th.append(int(m < case['thr']))
            marg = min(marg, abs(m - case['thr']) / max(m, case['thr']))
        return {'shape': list(imf.shape), 'noise_shape': list(noise.shape), 'finite': _finite(imf) and _finite(noise),
                'pk': pk, 'th': th, 'margin': marg}

    def ops(self, case, out):
        if isinstance(out, ImplError):
            return []
        # two more (non-stopping) loop columns than observed, so the model can run past the impl's exit
        return [proto.op('CEEMD-SHAPE', {'cap': 'none' if case['cap'] is None else str(case['cap'])},
                         [out['pk'] + [0, 0], out['th'] + [0, 0]])]

    def compare(self, case, out, results):
        if isinstance(out, ImplError):
            return _skip_if_not_judged(out)
        r = results[0]
        if not r.ok:
            return 'model: ' + r.raw[:100]
        if out['margin'] < S.TIE:
            return 'skip:near-tie'
        if int(r.args['ncols']) != out['shape'][1]:
            return 'model %s components (%s), impl %d (cap %s, stop causes pk=%s thr=%s)' % (
                r.args['ncols'], r.raw[:60], out['shape'][1], case['cap'], out['pk'], out['th'])
        return None

    def holds(self, case, out):
        if isinstance(out, ImplError):
            return _impl_error(out, 'raises')
        fs = []
        n = len(case['x'])
        if len(out['shape']) != 2 or out['shape'][0] != n or out['shape'][1] < 1:
            fs.append(Failure('wrong-shape', str(out['shape'])))
        elif case['cap'] is not None and out['shape'][1] > case['cap']:
            fs.append(Failure('more-components-than-cap', 'max_imfs=%d -> %d components' % (case['cap'], out['shape'][1])))
        if out['noise_shape'] != [n, case['nens']]:
            # the docstring documents no shape for the noise extra: mechanism-level
            fs.append(Failure('wrong-noise-shape', str(out['noise_shape']), literal=False))
        if not out['finite']:
            fs.append(Failure('non-finite-output', ''))
        return fs

    def tags(self, case, out):
        t = ['cap=%s' % case['cap']]
        if not isinstance(out, ImplError):
            t.append('K=%d' % out['shape'][1])
            if case['cap'] is not None and out['shape'][1] == case['cap']:
                t.append('exit=cap')
        return t

    def nontrivial(self, case, out):
        return not isinstance(out, ImplError) and case['cap'] is not None and out['shape'][1] >= case['cap']


def _second_layer_shape(out, n, cap, how, block_kind, block_msg):
    """[samples x first-layer components x second-layer components]; never more second-layer components than the REQUESTED cap.
    That the third dimension is exactly the cap (and the number of first-layer components when no cap was requested) is the
    current code's layout, not the statement's: mechanism-level."""
    fs = []
    sh = out['shape']
    if len(sh) != 3 or sh[0] != n or sh[1] != out['n1']:
        return [Failure('wrong-shape:' + how, 'expected [%d, %d, <= cap], got %s' % (n, out['n1'], sh))]
    if cap is not None and sh[2] > cap:
        fs.append(Failure('more-components-than-cap', 'second layer max_imfs=%d -> third dimension %d' % (cap, sh[2])))
    elif sh != [n, out['n1'], out['cap2']]:
        fs.append(Failure('wrong-shape:' + how, 'expected [%d, %d, %d], got %s' % (n, out['n1'], out['cap2'], sh), literal=False))
    if out.get('blocks') is not None and not all(out['blocks']):
        # with no cap requested the harness's inner sifts are capped at the first-layer count (the code's default): mechanism-level then
        fs.append(Failure(block_kind + how, block_msg % out['blocks'], literal=cap is not None))
    return fs


class SecondLayer(Stream):
    name = 'second_layer'

    def corpus(self):
        x = S.fr_list(_tones(128, 4))
        return [{'x': x, 'cap1': 3, 'args': a} for a in (None, {}, {'max_imfs': 2}, {'max_imfs': 3}, {'max_imfs': 5})]   # D3

    def generate(self, rng, tier):
        for i in range(400 if tier == 'thorough' else 60):
            fam = rng.choice(['noise', 'tones', 'tones', 'walk', 'amfm'])
            x = S.gen_signal(rng, fam, rng.choice([32, 64, 96]))
            cap1 = rng.choice([1, 2, 3, 4])
            u = rng.random()
            args = None if u < 0.2 else {} if u < 0.4 else {'max_imfs': rng.randint(1, 6)}
            if args is not None and rng.random() < 0.3:
                args['sift_thresh'] = 1e-6
            yield {'x': S.fr_list(x), 'cap1': cap1, 'args': args}

    def impl(self, case):
        import emd
        x = np.array(case['x'], dtype=float)
        with S.time_limit(IMPL_TIMEOUT):
            ia = np.abs(np.asarray(emd.sift.sift(x, max_imfs=case['cap1']))) + 0.0
            args = None if case['args'] is None else dict(case['args'])
            inner = []
            a2 = dict(case['args'] or {})
            cap2 = a2.get('max_imfs', ia.shape[1])
            a2['max_imfs'] = cap2
            for i in range(ia.shape[1]):
                inner.append(np.asarray(emd.sift.sift(ia[:, i], **a2)))
            res = {'n1': ia.shape[1], 'cap2': cap2, 'widths': [t.shape[1] for t in inner]}
            try:
                r = np.asarray(emd.sift.sift_second_layer(ia, sift_args=args))
                res['shape'] = list(r.shape)
                res['finite'] = _finite(r)
                ok = r.ndim == 3 and r.shape[1] == ia.shape[1]
                blocks = []
                for i in range(ia.shape[1] if ok else 0):
                    w = inner[i].shape[1]
                    blocks.append(bool(w <= r.shape[2] and np.array_equal(r[:, i, :w], inner[i]) and not np.any(r[:, i, w:])))
                res['blocks'] = blocks
                res['args_mutated'] = (args != case['args'])
            except Exception as e:  # noqa
                res['error'] = err_kind(e)
                res['msg'] = str(e)[:200]
        return res

    def ops(self, case, out):
        if isinstance(out, ImplError):
            return []
        cap = (case['args'] or {}).get('max_imfs')
        return [proto.op('L2-SHAPE', {'cap': 'none' if cap is None else str(cap)}, [out['widths']])]

    def compare(self, case, out, results):
        if isinstance(out, ImplError):
            return _skip_if_not_judged(out)
        r = results[0]
        if not r.ok:
            return 'model: ' + r.raw[:100]
        if 'error' in out:
            if out['error'] in NOT_JUDGED:
                return 'skip:' + out['error'].lower()
            return 'model shape [n, %s, %s]; impl raised %s' % (r.args['d1'], r.args['d2'], out['error'])
        if out['shape'][1:] != [int(r.args['d1']), int(r.args['d2'])]:
            return 'model shape [n, %s, %s]; impl %s' % (r.args['d1'], r.args['d2'], out['shape'])
        filled = [int(v) for v in (r.vecs[0] or [])]
        if filled != out['widths']:
            return 'model fills %s columns per block, inner sifts have %s' % (filled, out['widths'])
        return None

    def holds(self, case, out):
        if isinstance(out, ImplError):
            return _impl_error(out)
        cap = (case['args'] or {}).get('max_imfs')
        how = 'sift_args=None' if case['args'] is None else 'uncapped' if cap is None else \
            'cap-below-first-layer' if cap < out['n1'] else 'cap-above-first-layer' if cap > out['n1'] else 'cap-equals-first-layer'
        if 'error' in out:
            return [] if out['error'] in NOT_JUDGED else [Failure('second-layer-raises:%s:%s' % (out['error'], how), out['msg'])]
        fs = _second_layer_shape(out, len(case['x']), cap, how, 'second-layer-block-differs:',
                                 'blocks equal to sift(IA[:, i]) zero padded: %s')
        if not out.get('finite', True):
            fs.append(Failure('non-finite-output', ''))
        return fs

    def tags(self, case, out):
        cap = (case['args'] or {}).get('max_imfs')
        t = ['args=' + ('None' if case['args'] is None else 'uncapped' if cap is None else 'capped')]
        if not isinstance(out, ImplError):
            t.append('n1=%d' % out['n1'])
            if cap is not None:
                t.append('cap%sn1' % ('<' if cap < out['n1'] else '>' if cap > out['n1'] else '='))
            if any(w < out['cap2'] for w in out['widths']):
                t.append('padded-block')
        return t

    def nontrivial(self, case, out):
        return not isinstance(out, ImplError) and any(w < out['cap2'] for w in out['widths'])


class MaskSecondLayer(Stream):
    """mask_sift_second_layer: one mask sift per first-layer column with mask_freqs[ii:], zero padded to the cap"""
    name = 'mask_second_layer'
    parallel = False          # get_next_imf_mask opens its own multiprocessing pool

    FREQS = [0.3, 0.15, 0.07, 0.03, 0.012, 0.005]

    def corpus(self):
        x = S.fr_list(_tones(128, 4))
        c = [{'x': x, 'cap1': 3, 'freqs': self.FREQS[:m], 'kind': 'array', 'args': a}
             for m, a in ((5, None), (5, {}), (5, {'max_imfs': 2}), (5, {'max_imfs': 5}), (3, None), (3, {'max_imfs': 4}),
                          (2, None), (1, {'max_imfs': 2}))]       # the last two: fewer masks than first-layer columns
        c.append({'x': x, 'cap1': 3, 'freqs': self.FREQS[:4], 'kind': 'list', 'args': {'mask_amp_mode': 'ratio_sig', 'nphases': 2}})
        c.append({'x': x, 'cap1': 1, 'freqs': self.FREQS[:1], 'kind': 'tuple', 'args': None})
        return c

    def generate(self, rng, tier):
        for i in range(200 if tier == 'thorough' else 30):
            fam = rng.choice(['noise', 'tones', 'tones', 'walk', 'amfm'])
            x = S.gen_signal(rng, fam, rng.choice([48, 64, 96]))
            cap1 = rng.choice([1, 2, 3, 4])
            m = rng.randint(1, 6)
            f0 = rng.uniform(0.2, 0.45)
            freqs = [round(f0 / (2 ** j), 5) for j in range(m)]
            u = rng.random()
            args = None if u < 0.2 else {} if u < 0.35 else {'max_imfs': rng.randint(1, 6)}
            if args is not None and rng.random() < 0.5:
                args.update(rng.choice([{'mask_amp_mode': 'ratio_sig'}, {'mask_amp': 0.5, 'mask_amp_mode': 'abs'}, {'nphases': 2},
                                        {'sift_thresh': 1e-6}, {'mask_freqs': 'zc'}]))
            yield {'x': S.fr_list(x), 'cap1': cap1, 'freqs': freqs, 'kind': rng.choice(['array', 'array', 'list', 'tuple']), 'args': args}

    @staticmethod
    def _freqs(case):
        f = case['freqs']
        return np.array(f) if case['kind'] == 'array' else tuple(f) if case['kind'] == 'tuple' else list(f)

    def impl(self, case):
        import emd
        x = np.array(case['x'], dtype=float)
        with S.time_limit(IMPL_TIMEOUT * 3):
            ia = np.abs(np.asarray(emd.sift.sift(x, max_imfs=case['cap1']))) + 0.0
            args = None if case['args'] is None else dict(case['args'])
            a2 = dict(case['args'] or {})
            cap2 = a2.get('max_imfs', ia.shape[1])
            a2['max_imfs'] = cap2
            freqs = self._freqs(case)
            inner, widths = [], []
            for i in range(ia.shape[1]):
                a2['mask_freqs'] = freqs[i:]
                if len(freqs[i:]) == 0:
                    break                           # nothing the public mask_sift could be asked for
                t = np.asarray(emd.sift.mask_sift(ia[:, i], **a2))
                inner.append(t)
                widths.append(t.shape[1])
            res = {'n1': ia.shape[1], 'cap2': cap2, 'widths': widths, 'nfreqs': len(freqs)}
            try:
                r = np.asarray(emd.sift.mask_sift_second_layer(ia, freqs, sift_args=args))
                res['shape'] = list(r.shape)
                res['finite'] = _finite(r)
                ok = r.ndim == 3 and r.shape[1] == ia.shape[1] == len(inner)
                blocks = []
                for i in range(ia.shape[1] if ok else 0):
                    w = inner[i].shape[1]
                    blocks.append(bool(w <= r.shape[2] and np.array_equal(r[:, i, :w], inner[i]) and not np.any(r[:, i, w:])))
                res['blocks'] = blocks
            except Exception as e:  # noqa
                res['error'] = err_kind(e)
                res['msg'] = str(e)[:200]
            res['args_mutated'] = (args != case['args'])
        return res

    def ops(self, case, out):
        if isinstance(out, ImplError):
            return []
        cap = (case['args'] or {}).get('max_imfs')
        # columns beyond the masks get width 1 (never reached: the model stops at the first exhausted column)
        ws = out['widths'] + [1] * (out['n1'] - len(out['widths']))
        return [proto.op('ML2-SHAPE', {'cap': 'none' if cap is None else str(cap), 'nfreqs': out['nfreqs']}, [ws])]

    def compare(self, case, out, results):
        if isinstance(out, ImplError):
            return _skip_if_not_judged(out)
        if out.get('error') in NOT_JUDGED:
            return 'skip:' + out['error'].lower()
        r = results[0]
        if r.status == 'err':
            # the model raises IndexError exactly when the masks run out before the first-layer columns do
            if 'error' in out and r.words[:1] == [out['error']] and int(r.args['col']) == out['nfreqs'] == len(out['widths']):
                return None
            return 'model: %s; impl %s' % (r.raw[:60], out.get('error', out.get('shape')))
        if not r.ok:
            return 'model: ' + r.raw[:100]
        if 'error' in out:
            return 'model shape [n, %s, %s]; impl raised %s' % (r.args['d1'], r.args['d2'], out['error'])
        if out['shape'][1:] != [int(r.args['d1']), int(r.args['d2'])]:
            return 'model shape [n, %s, %s]; impl %s' % (r.args['d1'], r.args['d2'], out['shape'])
        filled = [int(v) for v in (r.vecs[0] or [])]
        if filled != out['widths']:
            return 'model fills %s columns per block, inner mask sifts have %s' % (filled, out['widths'])
        return None

    def holds(self, case, out):
        if isinstance(out, ImplError):
            return _impl_error(out)
        cap = (case['args'] or {}).get('max_imfs')
        how = 'sift_args=None' if case['args'] is None else 'uncapped' if cap is None else \
            'cap-below-first-layer' if cap < out['n1'] else 'cap-above-first-layer' if cap > out['n1'] else 'cap-equals-first-layer'
        fs = []
        if out['args_mutated']:
            # C03 says nothing about the caller's dictionary: mechanism-level
            fs.append(Failure('sift-args-mutated', 'the caller\'s sift_args dict was modified', literal=False))
        if out['nfreqs'] < out['n1']:
            # fewer masks than first-layer components: undocumented input outside the quantifier; the code raises IndexError, a version
            # that returns zero blocks / skips those columns contradicts no word of C03: either outcome is accepted (tagged)
            return fs
        if 'error' in out:
            return fs + ([] if out['error'] in NOT_JUDGED else [Failure('mask-second-layer-raises:%s:%s' % (out['error'], how), out['msg'])])
        fs += _second_layer_shape(out, len(case['x']), cap, how, 'mask-second-layer-block-differs:',
                                  'blocks equal to mask_sift(IA[:, i], mask_freqs[i:]) zero padded: %s')
        for i, w in enumerate(out['widths']):
            if w > min(out['cap2'], out['nfreqs'] - i):
                # literal against the requested cap only; "not more than the masks left" is the code's own reconciliation
                fs.append(Failure('more-components-than-cap', 'column %d: %d components, max_imfs=%d, %d masks left'
                                  % (i, w, out['cap2'], out['nfreqs'] - i), literal=cap is not None and w > cap))
                break
        if not out.get('finite', True):
            fs.append(Failure('non-finite-output', ''))
        return fs

    def tags(self, case, out):
        cap = (case['args'] or {}).get('max_imfs')
        t = ['args=' + ('None' if case['args'] is None else 'uncapped' if cap is None else 'capped'), 'freqs=' + case['kind']]
        if not isinstance(out, ImplError):
            t.append('n1=%d' % out['n1'])
            t.append('nfreqs%sn1' % ('<' if out['nfreqs'] < out['n1'] else '>' if out['nfreqs'] > out['n1'] else '='))
            if 'error' in out:
                t.append('raises:' + out['error'])
            if any(w < out['cap2'] for w in out['widths']):
                t.append('padded-block')
            if any(w == out['nfreqs'] - i < out['cap2'] for i, w in enumerate(out['widths'])):
                t.append('cap-lowered-to-masks-left')
        return t

    def nontrivial(self, case, out):
        return not isinstance(out, ImplError) and 'error' not in out and any(w < out['cap2'] for w in out['widths'])


STREAMS = [CapPrefix(), MaskCaps(), EnsembleShape(), CeemdShape(), SecondLayer(), MaskSecondLayer()]
