"""C15 — the cycle container keeps metrics, subsets and chains coherent.

Correspondence: whole operation sequences are run on the real `emd.cycles.Cycles` (cache on AND
off) and on the Lean state machine `Container.step`; after the constructor and after every
operation the complete observable state is compared: metric store (as a mapping name -> values: lengths,
values, NaN <-> nan; the order of the names is not compared), subset / chain vectors, stored conditions, `get_matching_cycles(probe)`,
and the three `get_metric_dataframe` modes (pandas builds the table; row count, column names and
cells are compared, columns matched by name).  Python's `float()` is an oracle: for every condition string the harness
sends `float(cond[i:])` for every suffix; the model decides which suffix is the literal.

Instance check (plain Python, independent of emd and of the model): one entry per cycle; a
computed metric equals f on the samples carrying each label; the subset is the rank among the
cycles satisfying all conditions (as evaluated when the selection was made); chains are the
maximal runs of consecutive selected cycles; chain_ind and the chain timings agree; the exports
show exactly the cycles they should; cache on == cache off for every operation sequence.
"""
import itertools
import math
import re

import numpy as np

from common import proto
from common.framework import Failure, ImplError, Stream, err_kind
from props import _cyc

ID = 'C15'
LEAN_MODULES = ['Proofs.C15']
REQUIRED = ['C15.Inv_init', 'C15.Inv_step', 'C15.Inv_run', 'C15.metric_value', 'C15.metric_value_augmented',
            'C15.parse_print', 'C15.cmp_sem', 'C15.matching_is_conjunction', 'C15.subset_is_rank',
            'C15.pick_selects', 'C15.chain_maximal_runs', 'C15.cache_irrelevant', 'C15.sliceCache_eq_lookup',
            'C15.container_vectors_are_index_map_vectors', 'C15.metric_is_cycle_statistic',
            'C15.container_cv_is_cycle_vector', 'C15.init_is_good_is_quality_flag',
            'C15.cache_relevant_short_vals', 'C15.cache_relevant_short_vals_augmented', 'C15.cache_irrelevant_run',
            'C15.chain_position_spec', 'C15.position_in_chain_spec', 'C15.metric_frame', 'C15.metric_persists',
            'C15.metric_value_persists', 'C15.add_metric_guard', 'C15.add_from_int_spec', 'C15.add_from_int_missing', 'C15.add_from_int_on_fresh', 'C15.toIntVals_no_nan', 'C15.chain_metric_value']
TRUSTED = ["Python's float(text) is an oracle: the harness sends float(cond[i:]) for every suffix of every condition, the model chooses the suffix",
           'pandas builds the table (DataFrame.from_dict / drop / reset_index): only row count, column names and cell values are compared',
           'the float constants 1.5*pi (trough threshold), 2*pi and 2*pi - phase_edge are computed by the harness with the documented expressions and handed to the model exactly',
           'reducing functions are the named set {mean, max, sum, len, first, last}; the theorems hold for every function']
ASSUMPTIONS = ['per-sample value vectors have one value per sample (hypothesis Op.ValsOK of C15.cache_irrelevant, hv of C15.metric_value*); '
               'compute_cycle_metric checks no length: on a shorter vector use_cache=False raises IndexError while use_cache=True computes on '
               'clipped slices (theorem C15.cache_relevant_short_vals; modelled faithfully and compared on cases tagged outside-domain:*, '
               'which the instance check does not judge: a vector of another length is not a per-sample vector of the record); '
               'values are small integers so every float sum is exact',
               'condition literals are finite numbers (no inf / nan literal)',
               'add_cycle_metric returning (not raising) its ValueError on a length mismatch is canonicalised to a rejection: the store is unchanged either way',
               'NOT JUDGED by the instance check (outside statement / quantifier; the correspondence still compares code and model): value vectors '
               'shorter OR longer than the record and everything after one in a sequence (cache on/off may differ there); an empty condition list; '
               'condition literals with blanks or digit-group underscores; whether a subset export before any selection raises; the name / presence '
               'of pandas\' index column and the column ORDER of exports (columns are matched by name, rows by the metric values of the wanted cycles); '
               'refusing an EMPTY selection, chain timings / chain metrics on an empty selection; the error CLASS of a refused operation (cache on '
               'vs off); placeholder -1 vs NaN on unselected cycles; truncation vs rounding of an integer chain metric',
               'MECHANISM-LEVEL (literal=False): the stored condition list mask_conditions, the auto-stored metric names is_good / chain_ind, '
               'atomicity of a failing operation, and - for augmented-mode metrics - the cycles whose previous cycle reverses, touches 1.5 pi '
               'exactly or lies past 1.5 pi entirely (there "from the first sample past 1.5 pi" and "back to the last sample before 1.5 pi" '
               'name different augmented cycles; on all other cycles the value is judged literally)']
THR = 1.5 * np.pi
FNAMES = ['mean', 'max', 'sum', 'len', 'first', 'last', 'nunique']
RULE = ('sequences: exhaustive over a 10-operation alphabet up to length 3 (quick) / 4 (thorough) on three alphabet phases (one shorter on the zero-cycle phase), plus random '
        'sequences up to length 12 on synthetic phases (variable, noisy, occasionally reversing frequency; 1-400 samples; phases without any '
        'wrap included); operations {compute metric (cycle / augmented) with %s, add metric (right and wrong length, reserved names), add an integer metric from a STORED metric (add_cycle_metric(name, C.metrics[src], dtype=int); an unknown src is a KeyError), '
        'compute timings, pick subset with 1-3 conditions over == != < <= > >= and negative / decimal / exponent literals and near-miss literals 2e-6 relative / 1e-9 absolute off a stored value, chain timings, '
        'chain metric, export all / subset / conditions, get_matching_cycles}; every case runs with cache on and off; about 1 percent of the '
        'compute-metric operations get a value vector of the wrong length (outside the domain: compared with the model, not judged). Non-trivial: '
        'at least two cycles and an operation sequence that selects a proper non-empty subset or stores a computed metric.' % FNAMES[:6])


# --------------------------------------------------------------------------------------
# implementation side

def _pyf(name):
    import emd
    return {'mean': np.mean, 'max': np.max, 'sum': np.sum, 'len': len,
            'first': emd.cycles.cf_start_value, 'last': emd.cycles.cf_end_value,
            'nunique': lambda x: len(np.unique(x))}[name]


def _num(x):
    x = float(x)
    return None if math.isnan(x) else x


def _table(fn):
    try:
        d = fn()
        arr = d.to_numpy(dtype=float)
        return {'cols': [str(c) for c in d.columns], 'rows': [[_num(v) for v in row] for row in arr]}
    except Exception as e:  # noqa
        return {'err': err_kind(e)}


def observe(C, probe):
    o = {'K': int(C.ncycles)}
    o['metrics'] = [[str(k), [_num(v) for v in np.asarray(C.metrics[k]).ravel()]] for k in C.metrics]
    if C.subset_vect is None and C.chain_vect is None and C.mask_conditions is None:
        o['sel'] = None
    else:
        mc = C.mask_conditions
        o['sel'] = {'sub': None if C.subset_vect is None else [int(v) for v in C.subset_vect],
                    'ch': None if C.chain_vect is None else [int(v) for v in C.chain_vect],
                    'conds': None if mc is None else ([mc] if isinstance(mc, str) else [str(c) for c in mc])}
    o['TA'] = _table(lambda: C.get_metric_dataframe())
    o['TS'] = _table(lambda: C.get_metric_dataframe(subset=True))
    o['TC'] = _table(lambda: C.get_metric_dataframe(conditions=list(probe)))
    try:
        o['PM'] = {'ok': [int(bool(v)) for v in C.get_matching_cycles(list(probe))]}
    except Exception as e:  # noqa
        o['PM'] = {'err': err_kind(e)}
    return o


def apply_op(C, op, n):
    """Run one operation through the public API; returns the `ret` part of the step."""
    k = op['op']
    if k == 'compute':
        C.compute_cycle_metric(op['name'], np.array(op['vals'], dtype=float), _pyf(op['f']), mode=op['mode'])
    elif k == 'add':
        r = C.add_cycle_metric(op['name'], np.array(op['vals'], dtype=float))
        if isinstance(r, Exception):
            # the pinned code RETURNS its ValueError: canonicalised to a rejection (see ASSUMPTIONS)
            raise r
    elif k == 'add_from':
        # a stored metric handed back as the values of a new integer metric: add_cycle_metric(name, C.metrics[src], dtype=int)
        # (round 6, C15 patch 2: the int branch replaced NaN by -1 IN the array it was given - here a stored metric)
        r = C.add_cycle_metric(op['name'], C.metrics[op['src']], dtype=int)
        if isinstance(r, Exception):
            raise r
    elif k == 'timings':
        C.compute_cycle_timings()
    elif k == 'pick':
        C.pick_cycle_subset(op['conds'] if not op.get('as_str') else op['conds'][0])
    elif k == 'chain_timings':
        C.compute_chain_timings()
    elif k == 'chain_metric':
        C.compute_chain_metric(op['name'], np.array(op['vals'], dtype=float), _pyf(op['f']),
                               dtype=int if op['int'] else None)
    elif k == 'export':
        if op['mode'] == 'all':
            d = C.get_metric_dataframe()
        elif op['mode'] == 'subset':
            d = C.get_metric_dataframe(subset=True)
        else:
            d = C.get_metric_dataframe(conditions=list(op['conds']))
        return {'table': _table(lambda: d)}
    elif k == 'match':
        return {'bools': [int(bool(v)) for v in C.get_matching_cycles(list(op['conds']))]}
    else:
        raise RuntimeError('unknown op ' + k)
    return None


def run_impl(case, cache):
    import emd
    kw = {}
    if case.get('step') is not None:
        kw['phase_step'] = case['step']
    if case.get('edge') is not None:
        kw['phase_edge'] = case['edge']
    ph = np.array(case['phase'], dtype=float)
    try:
        C = emd.cycles.Cycles(ph, use_cache=bool(cache), **kw)
    except Exception as e:  # noqa
        return {'init_error': err_kind(e)}
    trace = [dict(observe(C, case['probe']), st='ok', ret=None)]
    for op in case['ops']:
        st, ret = 'ok', None
        try:
            ret = apply_op(C, op, len(ph))
        except Exception as e:  # noqa
            st = err_kind(e)
        trace.append(dict(observe(C, case['probe']), st=st, ret=ret))
    return {'trace': trace}


# --------------------------------------------------------------------------------------
# model side: encoding of a case, decoding of the answer

def _chars(s):
    return [ord(c) for c in s]


def _float_table(cond):
    t = []
    for i in range(len(cond) + 1):
        try:
            v = float(cond[i:])
            if math.isnan(v) or math.isinf(v):
                raise ValueError
            t += [1, v]
        except ValueError:
            t += [0, 0]
    return t


def _cond_slots(conds):
    out = []
    for c in conds:
        out += [_chars(c), _float_table(c)]
    return out


def _int_vals(v):
    """what add_cycle_metric(dtype=int) stores for the float values v: NaN -> -1, truncation towards zero"""
    return [-1.0 if x is None else float(math.trunc(x)) for x in v]


def encode(case, cache, trace=None):
    """`trace` is unused (kept for callers): every operation, `add_from` included, is evaluated by the model from its own state."""
    step = case.get('step') or _cyc.DEFAULT_STEP
    edge = case.get('edge') or _cyc.DEFAULT_EDGE
    vecs = [[float(v) for v in case['phase']], [len(case['probe'])]] + _cond_slots(case['probe'])
    for idx, op in enumerate(case['ops']):
        k = op['op']
        if k == 'compute':
            vecs += [[1, FNAMES.index(op['f']), 0 if op['mode'] == 'cycle' else 1], _chars(op['name']), op['vals']]
        elif k == 'add':
            vecs += [[2], _chars(op['name']), op['vals']]
        elif k == 'add_from':
            # the model looks the source up in ITS store (Op.addFromInt; theorem C15.add_from_int_spec)
            vecs += [[9], _chars(op['name']), _chars(op['src'])]
        elif k == 'timings':
            vecs += [[3]]
        elif k == 'pick':
            vecs += [[4, len(op['conds'])]] + _cond_slots(op['conds'])
        elif k == 'chain_timings':
            vecs += [[5]]
        elif k == 'chain_metric':
            vecs += [[6, FNAMES.index(op['f']), int(op['int'])], _chars(op['name']), op['vals']]
        elif k == 'export':
            if op['mode'] == 'all':
                vecs += [[7, 0]]
            elif op['mode'] == 'subset':
                vecs += [[7, 1]]
            else:
                vecs += [[7, 2, len(op['conds'])]] + _cond_slots(op['conds'])
        elif k == 'match':
            vecs += [[8, len(op['conds'])]] + _cond_slots(op['conds'])
    return proto.op('CONT', {'step': step, 'edge': edge, 'twopi': _cyc.TWO_PI, 'endlo': _cyc.TWO_PI - edge,
                             'thr': THR, 'cache': int(cache)}, vecs)


def _name(tok):
    assert isinstance(tok, str) and tok.startswith('n:'), tok
    body = tok[2:]
    return ''.join(chr(int(c)) for c in body.split('.')) if body else ''


def _fl(v):
    return None if v is None else float(v)


class _Tokens:
    def __init__(self, vecs):
        self.v = [[] if x is None else x for x in vecs]
        self.i = 0

    def peek(self):
        return self.v[self.i][0] if self.i < len(self.v) and self.v[self.i] else None

    def take(self, tag):
        x = self.v[self.i]
        assert x and x[0] == tag, (tag, x[:4])
        self.i += 1
        return x[1:]


def _dec_table(tk, tag):
    h = tk.take(tag)
    if h[0] == 'err':
        return {'err': h[1]}
    nrows = int(h[2])
    cols = [_name(c) for c in tk.take('COLS')]
    rows = [[_fl(v) for v in tk.take('ROW')] for _ in range(nrows)]
    return {'cols': cols, 'rows': rows}


def _dec_bools(tk, tag):
    h = tk.take(tag)
    if h[0] == 'err':
        return {'err': h[1]}
    return {'ok': [int(v) for v in h[1:]]}


def decode(result):
    """Model answer -> same structure as run_impl()."""
    if result.status == 'err':
        return {'init_error': result.words[0] if result.words else '?'}
    if not result.ok:
        return {'bad': result.raw[:200]}
    tk = _Tokens(result.vecs)
    trace = []
    while tk.i < len(tk.v):
        st = tk.take('ST')[0]
        step = {'st': st, 'ret': None}
        if tk.peek() == 'RT':
            step['ret'] = {'table': _dec_table(tk, 'RT')}
        elif tk.peek() == 'RB':
            step['ret'] = {'bools': _dec_bools(tk, 'RB')['ok']}
        step['K'] = int(tk.take('K')[0])
        ms = []
        while tk.peek() == 'M':
            m = tk.take('M')
            ms.append([_name(m[0]), [_fl(v) for v in m[1:]]])
        step['metrics'] = ms
        if int(tk.take('SEL')[0]) == 0:
            step['sel'] = None
        else:
            step['sel'] = {'sub': [int(v) for v in tk.take('SUB')], 'ch': [int(v) for v in tk.take('CH')],
                           'conds': [_name(c) for c in tk.take('CONDS')]}
        step['TA'] = _dec_table(tk, 'TA')
        step['TS'] = _dec_table(tk, 'TS')
        step['TC'] = _dec_table(tk, 'TC')
        step['PM'] = _dec_bools(tk, 'PM')
        tk.take('END')
        trace.append(step)
    return {'trace': trace}


def _veq(a, b):
    if a is None or b is None:
        return a is None and b is None
    return abs(a - b) <= 1e-9 * max(1.0, abs(a), abs(b))


def _leq(a, b):
    return len(a) == len(b) and all(_veq(x, y) for x, y in zip(a, b))


def _placeholder_leq(got, exp, sub):
    """_leq, except that an unselected cycle (sub[k] < 0) may carry the placeholder -1 or NaN"""
    return len(got) == len(exp) == len(sub) and all(
        _veq(g, e) or (sk < 0 and g in (None, -1.0)) for g, e, sk in zip(got, exp, sub))


def _tbl_diff(a, b):
    if ('err' in a) or ('err' in b):
        return None if a == b else 'table %s vs %s' % (a.get('err', 'ok'), b.get('err', 'ok'))
    # columns are matched by NAME: their order (= the iteration order of the metrics dict) is not fixed by the property
    if sorted(a['cols']) != sorted(b['cols']) or len(set(a['cols'])) != len(a['cols']):
        return 'columns %s vs %s' % (a['cols'], b['cols'])
    if len(a['rows']) != len(b['rows']):
        return 'row count %d vs %d' % (len(a['rows']), len(b['rows']))
    perm = [b['cols'].index(c) for c in a['cols']]
    for i, (x, y) in enumerate(zip(a['rows'], b['rows'])):
        if len(x) != len(perm) or len(y) != len(perm) or not _leq(x, [y[j] for j in perm]):
            return 'row %d: %s vs %s (columns %s vs %s)' % (i, x, y, a['cols'], b['cols'])
    return None


def step_diff(a, b):
    """First difference between two observed steps (impl/model or cache on/off); None if equal."""
    if a['st'] != b['st']:
        return 'status', '%s vs %s' % (a['st'], b['st'])
    if a['K'] != b['K']:
        return 'ncycles', '%s vs %s' % (a['K'], b['K'])
    # the metric store is compared as a MAPPING name -> values: the order in which an operation stores its metrics is
    # not fixed by the property (harmless rewrite 2 of round 2 stored `duration` first)
    na, nb = [m[0] for m in a['metrics']], [m[0] for m in b['metrics']]
    if sorted(na) != sorted(nb) or len(set(na)) != len(na):
        return 'metric-names', '%s vs %s' % (na, nb)
    db = dict((n, v) for n, v in b['metrics'])
    for n1, v1 in a['metrics']:
        if not _leq(v1, db[n1]):
            return 'metric:' + n1, '%s vs %s' % (v1[:12], db[n1][:12])
    if a['sel'] != b['sel']:
        return 'selection', '%s vs %s' % (a['sel'], b['sel'])
    ra, rb = a.get('ret'), b.get('ret')
    if (ra is None) != (rb is None):
        return 'return', '%s vs %s' % (ra, rb)
    if ra is not None:
        if 'table' in ra:
            d = _tbl_diff(ra['table'], rb.get('table', {'err': 'none'}))
            if d:
                return 'returned-table', d
        elif ra != rb:
            return 'returned-match', '%s vs %s' % (ra, rb)
    for t in ('TA', 'TS', 'TC'):
        d = _tbl_diff(a[t], b[t])
        if d:
            return 'export-' + t, d
    if a['PM'] != b['PM']:
        return 'probe-match', '%s vs %s' % (a['PM'], b['PM'])
    return None


def trace_diff(a, b):
    if ('trace' in a) != ('trace' in b) or 'bad' in a or 'bad' in b:
        return 'constructor', 0, '%s vs %s' % ({k: v for k, v in a.items() if k != 'trace'} or 'ok',
                                                {k: v for k, v in b.items() if k != 'trace'} or 'ok')
    if 'trace' not in a:
        return None if a == b else ('constructor', 0, '%s vs %s' % (a, b))
    if len(a['trace']) != len(b['trace']):
        return 'length', 0, '%d vs %d steps' % (len(a['trace']), len(b['trace']))
    for i, (x, y) in enumerate(zip(a['trace'], b['trace'])):
        d = step_diff(x, y)
        if d:
            return d[0], i, d[1]
    return None


# --------------------------------------------------------------------------------------
# instance check: the property's own words, with independent plain-Python oracles

COND_RE = re.compile(r'^([^=<>!]*)(==|!=|<=|>=|<|>)([^=<>!]*)$')
PYCMP = {'==': lambda a, b: a == b, '!=': lambda a, b: a != b, '<': lambda a, b: a < b,
         '<=': lambda a, b: a <= b, '>': lambda a, b: a > b, '>=': lambda a, b: a >= b}
PYF = {'mean': lambda x: sum(x) / len(x), 'max': max, 'sum': sum, 'len': len,
       'first': lambda x: x[0], 'last': lambda x: x[-1], 'nunique': lambda x: len(set(x))}


def wellformed(cond):
    """(name, sym, value) when the string is `name sym number` in the documented sense, else None."""
    m = COND_RE.match(cond)
    if not m:
        return None
    if m.group(3) != m.group(3).strip() or '_' in m.group(3):
        return None      # blanks / digit-group underscores: accepted by Python's float(), not a documented literal form
    try:
        v = float(m.group(3))
    except ValueError:
        return None
    if math.isnan(v) or math.isinf(v):
        return None
    return m.group(1), m.group(2), v


def oracle_matching(metrics, conds, K):
    """Conjunction of the conditions on the metric store; None when a condition is not evaluable."""
    md = dict((n, v) for n, v in metrics)
    cols = []
    if len(conds) == 0:
        return None      # the quantifier has 1-3 conditions: what an empty list selects is not claimed
    for c in conds:
        w = wellformed(c)
        if w is None or w[0] not in md or len(md[w[0]]) != K:
            return None
        cols.append([PYCMP[w[1]](float('nan') if x is None else x, w[2]) for x in md[w[0]]])
    return [int(all(col[k] for col in cols)) for k in range(K)]


def oracle_rank(valids):
    out, c = [], 0
    for v in valids:
        out.append(c if v else -1)
        c += 1 if v else 0
    return out


def oracle_chains(subset):
    """Maximal runs of consecutive selected cycles, numbered in order: one entry per selected cycle."""
    out, c, prev = [], -1, None
    for k, s in enumerate(subset):
        if s < 0:
            continue
        if prev is None or k != prev + 1:
            c += 1
        out.append(c)
        prev = k
    return out


def labels_of(case):
    step = case.get('step') or _cyc.DEFAULT_STEP
    n = len(case['phase'])
    lab = [-1] * n
    for k, (a, b) in enumerate(_cyc.segments_of(case['phase'], step)):
        for i in range(a, b):
            lab[i] = k
    return lab


def oracle_stat(case, lab, K, op):
    f = PYF[op['f']]
    vals = op['vals']
    n = len(lab)
    out = []
    for k in range(K):
        idx = [i for i in range(n) if lab[i] == k]
        if op['mode'] == 'augmented':
            # the augmented cycle of the index maps: from the first sample of the previous cycle whose
            # phase is past the trough (> 1.5 pi) to the end of this cycle; none for the first cycle
            prev = [i for i in range(n) if lab[i] == k - 1 and case['phase'][i] > THR] if k > 0 else []
            if not prev:
                out.append(None)
                continue
            idx = list(range(prev[0], idx[-1] + 1))
        out.append(float(f([vals[i] for i in idx])))
    return out


def aug_ambiguous(case, lab, K):
    """per cycle: True when "the augmented cycle" is not pinned down by the documentation (an extra segment
    overlapping the previous cycle past its trough): the phase of the previous cycle is not strictly increasing or
    touches 1.5 pi exactly or lies past 1.5 pi entirely, so that 'from the first sample past 1.5 pi' and 'back to the
    last sample before 1.5 pi' name different samples."""
    ph = case['phase']
    out = []
    for k in range(K):
        prev = [ph[i] for i in range(len(lab)) if lab[i] == k - 1] if k > 0 else []
        # (also when the previous cycle starts past the trough already: its crossing of 1.5 pi is not in that cycle)
        out.append(any(b <= a for a, b in zip(prev, prev[1:])) or any(v == THR for v in prev) or (bool(prev) and prev[0] >= THR))
    return out


def export_shows(table, metrics, want):
    """Does the exported table show exactly the cycles `want` with their metric values?  Columns are matched by NAME;
    one extra leading column (pandas' index column, whatever it is called) is allowed and not judged."""
    names = [n for n, _ in metrics]
    cols = table['cols']
    lead = 0
    if len(cols) == len(names) + 1 and sorted(cols[1:]) == sorted(names):
        lead = 1
    elif sorted(cols) != sorted(names):
        return False
    pos = {c: j for j, c in enumerate(cols) if j >= lead}
    if len(table['rows']) != len(want):
        return False
    for k, r in zip(want, table['rows']):
        if not _leq([r[pos[n]] for n in names], [v[k] for _, v in metrics]):
            return False
    return True


def outside_domain(case, op):
    """'short' / 'long' when a compute-metric operation is handed a vector that does not have one value per
    sample (outside the property's quantifier: not a per-sample vector of this record), else None."""
    if op is not None and op['op'] == 'compute' and len(op['vals']) != len(case['phase']):
        return 'short' if len(op['vals']) < len(case['phase']) else 'long'
    return None


CHAIN_TIMING = {'chain_start': ('first', 'idx'), 'chain_end': ('last', 'idx'),
                'chain_len_samples': ('len', 'idx'), 'chain_len_cycles': ('nunique', 'lab')}


def check_trace(case, tr, tag):
    """The property on one trace (one cache setting). Returns {kind: Failure}."""
    fs = {}

    def fail(kind, i, detail, literal=True):
        f = Failure(kind, '%s step %d (%s): %s' % (tag, i, 'init' if i == 0 else case['ops'][i - 1]['op'], detail), literal=literal)
        if kind in fs and literal and not fs[kind].literal:
            fs[kind] = f
        fs.setdefault(kind, f)

    lab = labels_of(case)
    K = max(lab) + 1 if lab else 0
    pick = None              # last successful selection: conds, valids (from the store before the pick)
    chain_ind_user = False   # the user has stored something under 'chain_ind' since the last selection
    chain_stale = set()
    for i, st in enumerate(tr):
        op = case['ops'][i - 1] if i > 0 else None
        prev = tr[i - 1] if i > 0 else None
        md = dict((n, v) for n, v in st['metrics'])
        # ---- one entry per cycle -------------------------------------------------------
        if st['K'] != K:
            fail('ncycles-wrong', i, 'container reports %d cycles, the phase has %d' % (st['K'], K))
        if i == 0 and 'is_good' not in md:
            # which metrics the constructor stores on its own is not in the statement: mechanism-level
            fail('is_good-missing', i, 'metrics after construction: %s' % list(md), literal=False)
        for n, v in st['metrics']:
            if len(v) != K:
                fail('metric-length', i, 'metric %r has %d entries for %d cycles' % (n, len(v), K))
        # ---- a computed metric is f on each cycle's samples -----------------------------------
        if outside_domain(case, op) is not None:
            pass      # a vector shorter OR longer than the record is not a per-sample vector of it: outside the domain,
            #           nothing is claimed (the correspondence still compares model and code)
        elif op and op['op'] == 'compute' and st['st'] == 'ok':
            exp = oracle_stat(case, lab, K, op)
            got = md.get(op['name'])
            if got is None or not _leq(got, exp):
                # augmented mode: literal on the cycles whose augmented cycle is pinned down by the documentation; where
                # the previous cycle's phase reverses / touches 1.5 pi the rule used here is one of two readings
                lit = True
                if op['mode'] == 'augmented' and got is not None and len(got) == len(exp):
                    amb = aug_ambiguous(case, lab, K)
                    lit = any(not _veq(g, e) for g, e, a in zip(got, exp, amb) if not a)
                fail('metric-value:' + op['mode'], i, 'metric %r = %s, expected %s(%s samples) = %s'
                     % (op['name'], got[:10] if got is not None else 'missing', op['f'], op['mode'], exp[:10]), literal=lit)
        if op and op['op'] == 'compute' and st['st'] != 'ok' and outside_domain(case, op) is None:
            fail('compute-metric-raises:' + st['st'], i, 'compute_cycle_metric(%r, mode=%s) raised' % (op['name'], op['mode']))
        if op and op['op'] == 'timings' and st['st'] == 'ok':
            n = len(lab)
            for name, f, src in (('start_sample', 'first', 'idx'), ('stop_sample', 'last', 'idx'), ('duration', 'len', 'idx')):
                exp = oracle_stat(case, lab, K, {'f': f, 'vals': list(range(n)), 'mode': 'cycle'})
                if name not in md or not _leq(md[name], exp):
                    fail('timing-value:' + name, i, '%s = %s expected %s' % (name, md.get(name), exp))
        if op and op['op'] == 'add' and st['st'] == 'ok' and len(op['vals']) == K:
            if not _leq(md.get(op['name'], []), [float(v) for v in op['vals']]):
                fail('added-metric-not-stored', i, '%r' % op['name'])
        if op and op['op'] == 'add_from' and prev is not None:
            pmd = dict((n, v) for n, v in prev['metrics'])
            if op['src'] in pmd and op['src'] != op['name'] and len(pmd[op['src']]) == K:
                if st['st'] != 'ok':
                    fail('add-from-stored-metric-raises:' + st['st'], i, 'add_cycle_metric(%r, metrics[%r], dtype=int)' % (op['name'], op['src']))
                else:
                    if not _leq(md.get(op['name'], []), _int_vals(pmd[op['src']])):
                        fail('added-metric-not-stored', i, '%r from %r' % (op['name'], op['src']))
                    if not _leq(md.get(op['src'], []), pmd[op['src']]):
                        # every stored metric stays what it was computed to be: adding ANOTHER metric must not rewrite it
                        fail('stored-metric-changed-by-adding-another', i, 'metric %r was %s, is %s after add_cycle_metric(%r, metrics[%r], dtype=int)'
                             % (op['src'], pmd[op['src']][:10], md.get(op['src'], [])[:10], op['name'], op['src']))
        # ---- selection -----------------------------------------------------------------------
        if op and op['op'] in ('add', 'add_from', 'compute', 'chain_metric') and op['name'] == 'chain_ind' and st['st'] == 'ok':
            chain_ind_user = True
        if op and op['op'] == 'pick':
            valids = oracle_matching(prev['metrics'], op['conds'], K)
            if st['st'] == 'ok':
                if valids is not None:
                    pick = {'conds': list(op['conds']), 'valids': valids}
                    chain_ind_user = False
                    chain_stale = set(CHAIN_TIMING) | {'chain_position'}
                    if st['sel'] is None or st['sel']['sub'] != oracle_rank(valids):
                        fail('subset-not-rank-of-matching', i, 'conditions %s match %s, subset_vect %s'
                             % (op['conds'], valids, st['sel'] and st['sel']['sub']))
                else:
                    pick = None      # conditions outside the documented form: only the correspondence speaks
            elif valids is not None and any(valids):
                # (an EMPTY selection may be refused with an error: the property says what the subset is, not that
                # selecting nothing must succeed)
                fail('pick-rejects-valid-conditions:' + st['st'], i, 'conditions %s match %s' % (op['conds'], valids))
        sel = st['sel']
        if sel is not None and (sel['sub'] is None or sel['ch'] is None or sel['conds'] is None):
            # subset without chains (or the reverse) contradicts "chains are the maximal runs of selected cycles"; the
            # stored condition list (`mask_conditions`) is not mentioned by the property: mechanism-level on its own
            fail('selection-half-set', i, str(sel), literal=(sel['sub'] is None) != (sel['ch'] is None))
        elif sel is not None:
            sub, ch = sel['sub'], sel['ch']
            if len(sub) != K:
                fail('subset-length', i, '%d entries for %d cycles' % (len(sub), K))
            if sub != oracle_rank([s >= 0 for s in sub]):
                fail('subset-not-numbered-in-order', i, str(sub))
            if ch != oracle_chains(sub):
                fail('chain-not-maximal-runs', i, 'subset %s chains %s expected %s' % (sub, ch, oracle_chains(sub)))
            if pick is not None:
                if sel['conds'] != pick['conds']:
                    fail('stored-conditions-not-those-of-the-subset', i,
                         'mask_conditions %s but the subset was selected with %s' % (sel['conds'], pick['conds']), literal=False)
                if sub != oracle_rank(pick['valids']):
                    fail('subset-changed-without-selection', i, str(sub))
            if not chain_ind_user and len(sub) == K and ch == oracle_chains(sub) and sub == oracle_rank([x >= 0 for x in sub]):
                exp = [float(ch[s]) if s >= 0 else -1.0 for s in sub]
                if 'chain_ind' not in md:
                    # that a selection stores a metric called chain_ind is not in the statement: mechanism-level
                    fail('chain_ind-disagrees', i, 'no chain_ind metric; subset %s chains %s' % (sub, ch), literal=False)
                elif not _leq(md['chain_ind'], exp) and not _leq(md['chain_ind'], [None if v < 0 else v for v in exp]):
                    fail('chain_ind-disagrees', i, 'chain_ind %s, subset %s chains %s' % (md.get('chain_ind'), sub, ch))
            # the subset export shows exactly the selected cycles (columns matched by name; the layout of pandas' index
            # column is not judged)
            ts = st['TS']
            if 'err' not in ts and len(sub) == K and all(len(v) == K for _, v in st['metrics']):
                want = [k for k in range(K) if sub[k] >= 0]
                if not export_shows(ts, st['metrics'], want):
                    fail('subset-export-rows', i, 'columns %s rows %s, selected cycles %s' % (ts['cols'], [r[:1] for r in ts['rows']], want))
            if 'err' in ts and not ('index' in md and 'level_0' in md):
                fail('subset-export-raises:' + ts['err'], i, 'get_metric_dataframe(subset=True)')
        # (no selection yet: whether a subset export then raises or shows every cycle is not claimed)
        # ---- chain timings ---------------------------------------------------------------------
        if op and op['op'] == 'chain_timings':
            if st['st'] == 'ok' and sel is not None and sel['sub'] is not None and len(sel['sub']) == K \
                    and sel['sub'] == oracle_rank([x >= 0 for x in sel['sub']]):
                chain_stale = set()
                sub, ch = sel['sub'], oracle_chains(sel['sub'])
                n = len(lab)
                for name, (f, src) in CHAIN_TIMING.items():
                    exp = []
                    for k in range(K):
                        if sub[k] < 0:
                            exp.append(-1.0)
                            continue
                        cyc = [kk for kk in range(K) if sub[kk] >= 0 and ch[sub[kk]] == ch[sub[k]]]
                        idx = [j for j in range(n) if lab[j] in cyc]
                        exp.append(float(PYF[f](idx if src == 'idx' else [lab[j] for j in idx])))
                    if name not in md or not _placeholder_leq(md[name], exp, sub):
                        fail('chain-timing-value:' + name, i, '%s = %s expected %s' % (name, md.get(name), exp))
                exp = []
                for k in range(K):
                    exp.append(-1.0 if sub[k] < 0 else float(sum(1 for kk in range(k) if sub[kk] >= 0 and ch[sub[kk]] == ch[sub[k]])))
                if not _placeholder_leq(md.get('chain_position', []), exp, sub):
                    fail('chain-timing-value:chain_position', i, '%s expected %s' % (md.get('chain_position'), exp))
            elif st['st'] != 'ok' and sel is not None and sel['sub'] is not None and any(x >= 0 for x in sel['sub']):
                # (with nothing selected there are no chains: refusing is as good as storing placeholders)
                fail('chain-timings-raise:' + st['st'], i, 'selection %s' % sel)
        if op and op['op'] == 'chain_metric':
            if st['st'] == 'ok' and sel is not None and sel['sub'] is not None and len(sel['sub']) == K \
                    and sel['sub'] == oracle_rank([x >= 0 for x in sel['sub']]):
                sub, ch = sel['sub'], oracle_chains(sel['sub'])
                n = len(lab)
                exp, alt = [], []
                for k in range(K):
                    if sub[k] < 0:
                        exp.append(-1.0 if op['int'] else None)
                        alt.append(exp[-1])
                        continue
                    cyc = [kk for kk in range(K) if sub[kk] >= 0 and ch[sub[kk]] == ch[sub[k]]]
                    v = float(PYF[op['f']]([op['vals'][j] for j in range(n) if lab[j] in cyc]))
                    exp.append(float(int(v)) if op['int'] else v)      # astype(int) truncates toward zero ...
                    alt.append(float(math.floor(v + 0.5)) if op['int'] else v)   # ... rounding is an equally good integer form
                got = md.get(op['name'])
                if got is None or len(got) != K or len(op['vals']) != n:
                    if got is None or len(op['vals']) == n:
                        fail('chain-metric-value', i, '%s = %s expected %s' % (op['name'], got, exp))
                elif not all((_veq(g, e) or _veq(g, a) or (sub[k] < 0 and g in (None, -1.0))) for k, (g, e, a) in enumerate(zip(got, exp, alt))):
                    fail('chain-metric-value', i, '%s = %s expected %s' % (op['name'], got, exp))
            elif st['st'] != 'ok' and sel is not None and sel['sub'] is not None and any(x >= 0 for x in sel['sub']) \
                    and len(op['vals']) == len(lab):
                fail('chain-metric-raises:' + st['st'], i, 'selection %s' % sel)
        # ---- exports ----------------------------------------------------------------------------
        ta = st['TA']
        if 'err' in ta:
            fail('export-raises:' + ta['err'], i, 'get_metric_dataframe()')
        elif all(len(v) == K for v in md.values()):
            if sorted(ta['cols']) != sorted(n for n, _ in st['metrics']):
                fail('export-columns', i, '%s vs metrics %s' % (ta['cols'], [n for n, _ in st['metrics']]))
            elif not export_shows(ta, st['metrics'], list(range(K))):
                fail('export-cells', i, 'table does not reproduce the metric store')
        want = oracle_matching(st['metrics'], case['probe'], K)
        if want is not None:
            if st['PM'] != {'ok': want}:
                fail('matching-not-conjunction', i, 'conditions %s: got %s expected %s' % (case['probe'], st['PM'], want))
            tc = st['TC']
            if 'err' in tc:
                if not ('index' in md and 'level_0' in md):
                    fail('conditions-export-raises:' + tc['err'], i, str(case['probe']))
            elif all(len(v) == K for _, v in st['metrics']):
                rows = [k for k in range(K) if want[k]]
                if not export_shows(tc, st['metrics'], rows):
                    fail('conditions-export-rows', i, 'conditions %s match cycles %s; table columns %s rows %s'
                         % (case['probe'], rows, tc['cols'], [r[:1] for r in tc['rows']]))
        if op and op['op'] == 'match' and st['st'] == 'ok':
            w = oracle_matching(prev['metrics'], op['conds'], K)
            if w is not None and st['ret'] != {'bools': w}:
                fail('matching-not-conjunction', i, 'conditions %s: got %s expected %s' % (op['conds'], st['ret'], w))
        # ---- a failed operation leaves no trace in the metric store --------------------------------
        if op and st['st'] != 'ok' and prev is not None:
            if sorted(m[0] for m in st['metrics']) != sorted(m[0] for m in prev['metrics']) and op['op'] not in ('timings', 'chain_timings'):
                # atomicity of a failing operation is not stated by the property: mechanism-level
                fail('failed-operation-changed-metrics', i, '%s raised %s' % (op['op'], st['st']), literal=False)
    return fs


class _Base(Stream):
    timeout_s = 300

    def impl(self, case):
        return {'on': run_impl(case, 1), 'off': run_impl(case, 0)}

    def ops(self, case, out):
        tr = (lambda k: out[k].get('trace') if isinstance(out, dict) and isinstance(out.get(k), dict) else None)
        return [encode(case, 1, tr('on')), encode(case, 0, tr('off'))]

    def compare(self, case, out, results):
        if isinstance(out, ImplError):
            return 'harness failed to run the implementation: %s %s' % (out['error'], out.get('msg', '')[-200:])
        for key, r in zip(('on', 'off'), results):
            model = decode(r)
            if 'bad' in model:
                return 'model rejected the encoded case: ' + model['bad']
            d = trace_diff(out[key], model)
            if d:
                return 'cache=%s %s at step %d (%s): impl vs model: %s' % (
                    key, d[0], d[1], 'init' if d[1] == 0 else case['ops'][d[1] - 1]['op'], d[2])
        return None

    def holds(self, case, out):
        if isinstance(out, ImplError):
            return [Failure('harness-error:' + out['error'], out.get('msg', ''), literal=out['error'] != 'Timeout')]
        fs = {}
        for key in ('on', 'off'):
            if 'trace' not in out[key]:
                fs.setdefault('constructor-raises:' + out[key]['init_error'],
                              Failure('constructor-raises:' + out[key]['init_error'], 'cache %s phase %s' % (key, case['phase'][:12])))
            else:
                try:
                    found = check_trace(case, out[key]['trace'], 'cache-' + key)
                except Exception as e:  # noqa  (an oracle tripping over an ill-formed state is itself a failure)
                    found = {'instance-check-crashed': Failure('instance-check-crashed', repr(e), literal=False)}
                for k, f in found.items():
                    fs.setdefault(k, f)
        d = trace_diff(out['on'], out['off'])
        first_od = next((j + 1 for j, o_ in enumerate(case['ops']) if outside_domain(case, o_) is not None), None)
        if d and first_od is not None and d[1] >= first_od:
            d = None     # from a value vector that is not per-sample on (outside the domain) the two routes may differ
            #              (they are known to on a short one: C15.cache_relevant_short_vals)
        if d and d[0] == 'status' and 'trace' in out['on'] and 'trace' in out['off'] and \
                out['on']['trace'][d[1]]['st'] != 'ok' and out['off']['trace'][d[1]]['st'] != 'ok':
            # both routes refuse the operation, with different error classes: the class is not a result. Compare the rest.
            on2 = {'trace': [dict(t_, st='rejected' if t_['st'] != 'ok' else 'ok') for t_ in out['on']['trace']]}
            off2 = {'trace': [dict(t_, st='rejected' if t_['st'] != 'ok' else 'ok') for t_ in out['off']['trace']]}
            d = trace_diff(on2, off2)
            if d and first_od is not None and d[1] >= first_od:
                d = None
        if d:
            where = d[0].split(':')[0]
            opn = 'init' if d[1] == 0 else case['ops'][d[1] - 1]['op']
            mode = ''
            if d[1] > 0 and case['ops'][d[1] - 1]['op'] == 'compute':
                mode = ':' + case['ops'][d[1] - 1]['mode']
            kind = 'cache-differs:%s:%s%s' % (opn, where, mode)
            fs.setdefault(kind, Failure(kind, 'cache on vs off at step %d: %s' % (d[1], d[2])))
        return list(fs.values())

    def tags(self, case, out):
        t = ['ops=%d' % len(case['ops'])]
        for o in case['ops']:
            t.append('op=' + o['op'] + (':' + o['mode'] if o['op'] in ('compute', 'export') else ''))
            if outside_domain(case, o):
                t.append('outside-domain:value-vector-%s:%s' % (outside_domain(case, o), o['mode']))
        if not isinstance(out, ImplError) and 'trace' in out['on']:
            tr = out['on']['trace']
            K = tr[0]['K']
            t.append('cycles=0' if K == 0 else 'cycles=1' if K == 1 else 'cycles=2-5' if K <= 5 else 'cycles>5')
            for st in tr[1:]:
                if st['st'] != 'ok':
                    t.append('raises=' + st['st'])
            for o, st in zip(case['ops'], tr[1:]):
                if o['op'] == 'pick' and st['st'] == 'ok' and st['sel']:
                    ns = sum(1 for s in st['sel']['sub'] if s >= 0)
                    t.append('subset=empty' if ns == 0 else 'subset=all' if ns == K else 'subset=proper')
                    t.append('chains=%s' % ('0' if not st['sel']['ch'] else '1' if max(st['sel']['ch']) == 0 else '>1'))
                if o['op'] in ('pick', 'match') or (o['op'] == 'export' and o['mode'] == 'conds'):
                    for c in o['conds']:
                        w = wellformed(c)
                        t.append('cmp=' + (w[1] if w else 'malformed'))
        return t

    def nontrivial(self, case, out):
        if isinstance(out, ImplError) or 'trace' not in out['on']:
            return False
        tr = out['on']['trace']
        if tr[0]['K'] < 2:
            return False
        for o, st in zip(case['ops'], tr[1:]):
            if st['st'] != 'ok':
                continue
            if o['op'] in ('compute', 'chain_timings', 'chain_metric'):
                return True
            if o['op'] == 'pick' and st['sel'] and 0 < sum(1 for s in st['sel']['sub'] if s >= 0) < tr[0]['K']:
                return True
        return False

    def shrink(self, case):
        ops = case['ops']
        for i in range(len(ops)):
            yield dict(case, ops=ops[:i] + ops[i + 1:])
        n = len(case['phase'])
        for cut in (n // 2, n // 4, 1):
            if 0 < cut < n:
                for sl in (slice(cut, None), slice(0, n - cut)):
                    new_n = len(case['phase'][sl])
                    nops = []
                    for o in ops:
                        if 'vals' in o and o['op'] in ('compute', 'chain_metric'):
                            o = dict(o, vals=o['vals'][sl])
                        nops.append(o)
                    if new_n >= 1:
                        yield dict(case, phase=case['phase'][sl], ops=nops)
        if case['probe']:
            yield dict(case, probe=case['probe'][:-1])


# --------------------------------------------------------------------------------------
# generators

def _idx(n):
    return list(range(n))


def _pattern(n, a=3, b=7):
    return [((i * a + (i // 3) * b) % 11) - 5 for i in range(n)]


REG = [0.1, 3.1, 6.2]          # one regular cycle of the C12/C13 alphabet


def exh_alphabet(n, K):
    """The 10-operation alphabet of the exhaustive stream (K = number of cycles of the phase)."""
    return [
        {'op': 'compute', 'name': 'm', 'f': 'mean', 'mode': 'cycle', 'vals': _idx(n)},
        {'op': 'compute', 'name': 'a', 'f': 'max', 'mode': 'augmented', 'vals': _pattern(n)},
        {'op': 'add', 'name': 'x', 'vals': [float((k * 5) % 3) - 1.5 for k in range(K)]},
        {'op': 'add', 'name': 'bad', 'vals': [1.0] * (K + 1)},
        {'op': 'timings'},
        {'op': 'pick', 'conds': ['duration>=3']},
        {'op': 'pick', 'conds': ['m<=4.5e0', 'is_good==1']},
        {'op': 'pick', 'conds': ['is_good>1e3']},
        {'op': 'chain_timings'},
        {'op': 'add', 'name': 'm', 'vals': [float(K - k) for k in range(K)]},
    ]


EXH_PHASES = [
    REG * 2 + [0.1, 3.1] + REG + [6.0] + REG,                 # 6 cycles of lengths 3,3,2,3,1(+),3 … irregular
    [3.1, 6.2] + REG + [0.1, 6.2] + REG + [0.1],               # short first/last cycles
    [0.1, 1.0, 3.1],                                           # no wrap: zero cycles
]


class Exhaustive(_Base):
    """Every operation sequence up to length L over the fixed alphabet, on three small phases."""
    name = 'seq_exhaustive'
    exhaustive = True

    def generate(self, rng, tier):
        L = 4 if tier == 'thorough' else 3
        for pi, ph in enumerate(EXH_PHASES):
            n = len(ph)
            K = len(_cyc.segments_of(ph, _cyc.DEFAULT_STEP))
            alpha = exh_alphabet(n, K)
            L_here = L - 1 if pi == 2 else L      # the zero-cycle container: shorter sequences
            for length in range(0, L_here + 1):
                for seq in itertools.product(range(len(alpha)), repeat=length):
                    yield {'phase': ph, 'step': None, 'edge': None, 'probe': ['is_good==1', 'm>2'] if pi else ['duration!=3'],
                           'ops': [alpha[j] for j in seq]}


SYMS = ['==', '!=', '<', '<=', '>', '>=']


def lit_forms(rng, v):
    """Textual forms of a number close to v (v itself for integral / short dyadic v)."""
    forms = [repr(float(v)), '%.1e' % v if float('%.1e' % v) == v else repr(float(v))]
    if float(v) == int(v):
        iv = int(v)
        forms += [str(iv), '%d.' % iv, '%d.0e0' % iv, '%de0' % iv, '+%d' % iv if iv >= 0 else str(iv), ' %d' % iv, '%d ' % iv]
        if iv % 10 == 0 and iv != 0:
            forms.append('%de1' % (iv // 10))
    else:
        forms += ['%se0' % repr(float(v))]
        if 0 < abs(v) < 1:
            forms.append(repr(float(v)).replace('0.', '.', 1))
    return rng.choice(forms)


def gen_cond(rng, names, values):
    """One condition string; `values` maps metric name -> plausible values (for hitting == / boundaries)."""
    r = rng.random()
    name = rng.choice(names)
    if r < 0.06:
        name = rng.choice(['nope', '', 'm ', 'Duration'])
    sym = rng.choice(SYMS)
    pool = [v for v in values.get(name, []) if v is not None]
    if pool and rng.random() < 0.7:
        v = rng.choice(pool)
        q = rng.random()
        if q < 0.3:
            v = v + rng.choice([-0.5, 0.5, -1, 1, 0.25])
        elif q < 0.45:
            # near miss: a literal that differs from a stored value only at the 1e-6 relative / 1e-9 absolute level
            # (round 6, C15 patch 1: `==` evaluated with np.isclose instead of exact equality)
            v = v * (1 + rng.choice([-2e-6, 2e-6, 1e-9])) if v != 0 else rng.choice([1e-9, -1e-9])
    else:
        v = rng.choice([-1.5, 0, 1, 2.5, 3, 10, -2, 0.125, 100, 1e3, -1e-2])
    lit = lit_forms(rng, v)
    if rng.random() < 0.08:
        # malformed / unusual comparator and literal spellings: only error kinds and the parse matter
        return rng.choice([name + '=' + lit, name + '!' + lit, name, name + '<>' + lit, name + '<=>' + lit,
                           name + sym + 'abc', name + sym, name + '==' + lit + '==4', name + ' ' + sym + ' ' + lit,
                           name + sym + ' ' + lit, name + '=<' + lit, name + '=>' + lit, name + '!<' + lit,
                           name + sym + '--' + lit, name + '<' + '1_0', name + sym + lit + 'e', name + '>' + '1e+1',
                           name + sym + '0x10'])
    return name + sym + lit


class Random(_Base):
    """Random operation sequences (length <= 12) over synthetic phases."""
    name = 'seq_random'

    def corpus(self):
        n = 14
        ph = REG * 4 + [0.1, 3.0]
        irregular = [0.1, 3.1, 5.0, 4.0, 6.0, 0.2, 3.0, 6.1, 0.1, 3.1, 0.2, 3.1, 6.2, 0.3]
        return [
            # round 6, C15 patch 2: an augmented metric (NaN for the first cycle) handed back as an integer metric must stay as it is
            {'phase': ph, 'step': None, 'edge': None, 'probe': ['a>=0'],
             'ops': [{'op': 'compute', 'name': 'a', 'f': 'mean', 'mode': 'augmented', 'vals': _idx(n)},
                     {'op': 'add_from', 'name': 'ai', 'src': 'a'},
                     {'op': 'match', 'conds': ['a<0']},
                     {'op': 'pick', 'conds': ['a>=0']},
                     {'op': 'export', 'mode': 'subset'},
                     {'op': 'add_from', 'name': 'zz', 'src': 'nope'},
                     {'op': 'export', 'mode': 'all'}]},
            # round 6, C15 patch 1: `==` must mean exact equality - 1.000001 is not 1, 1e-9 is not 0 (np.isclose said it was)
            {'phase': ph, 'step': None, 'edge': None, 'probe': ['m==1'],
             'ops': [{'op': 'add', 'name': 'm', 'vals': [1.000001, 1.0, 1e-09, 0.0, 0.9999999]},
                     {'op': 'match', 'conds': ['m==0']},
                     {'op': 'pick', 'conds': ['m==1']},
                     {'op': 'chain_timings'},
                     {'op': 'export', 'mode': 'subset'},
                     {'op': 'export', 'mode': 'conds', 'conds': ['m==1.0e0']},
                     {'op': 'pick', 'conds': ['m!=1', 'm!=0']}]},
            # seeded change C15-1: picking the SAME conditions again after a metric they name was overwritten must
            # re-evaluate them (a cached 'selection already in place' shortcut leaves subset/chains/exports stale)
            {'phase': ph, 'step': None, 'edge': None, 'probe': ['m>2'],
             'ops': [{'op': 'add', 'name': 'm', 'vals': [0.0, 1.0, 5.0, 6.0, 7.0]},
                     {'op': 'pick', 'conds': ['m>2']},
                     {'op': 'add', 'name': 'm', 'vals': [9.0, 8.0, 0.0, 0.0, 7.0]},
                     {'op': 'pick', 'conds': ['m>2']},
                     {'op': 'chain_timings'},
                     {'op': 'export', 'mode': 'subset'}]},
            {'phase': ph, 'step': None, 'edge': None, 'probe': ['duration>=3'],
             'ops': [{'op': 'timings'},
                     {'op': 'pick', 'conds': ['duration>=3', 'is_good==1'], },
                     {'op': 'add', 'name': 'duration', 'vals': [1.0, 1.0, 3.0, 1.0, 3.0]},
                     {'op': 'pick', 'conds': ['duration>=3', 'is_good==1']},
                     {'op': 'export', 'mode': 'subset'}]},
            # D11: augmented metric of cycle 0 — cache gave NaN, lookup evaluated f on the whole record
            {'phase': ph, 'step': None, 'edge': None, 'probe': ['a!=0'],
             'ops': [{'op': 'compute', 'name': 'a', 'f': 'mean', 'mode': 'augmented', 'vals': _idx(n)},
                     {'op': 'compute', 'name': 'al', 'f': 'len', 'mode': 'augmented', 'vals': _idx(n)}]},
            # D11: irregular previous cycle (phase re-crosses 1.5 pi; previous cycle without a trough; exact 1.5 pi)
            {'phase': irregular, 'step': None, 'edge': None, 'probe': ['a>=3'],
             'ops': [{'op': 'compute', 'name': 'a', 'f': 'first', 'mode': 'augmented', 'vals': _idx(14)},
                     {'op': 'compute', 'name': 'b', 'f': 'len', 'mode': 'augmented', 'vals': _idx(14)}]},
            {'phase': [0.1, THR, 6.0, 0.1, 6.1, 6.2, 0.1, 3.0, 0.2, 3.0, 6.0], 'step': None, 'edge': None, 'probe': [],
             'ops': [{'op': 'compute', 'name': 'b', 'f': 'len', 'mode': 'augmented', 'vals': _idx(11)}]},
            # D11: no wrap -> zero cycles; the slice cache produced one slice and `is_good` was silently dropped
            {'phase': [0.1, 1.0, 2.0], 'step': None, 'edge': None, 'probe': ['is_good==1'],
             'ops': [{'op': 'timings'}, {'op': 'pick', 'conds': ['is_good==1']}, {'op': 'chain_timings'}]},
            {'phase': [1.0], 'step': None, 'edge': None, 'probe': [], 'ops': [{'op': 'timings'}]},
            # empty selection: pick raised after half-updating the container; chain_ind went stale
            {'phase': ph, 'step': None, 'edge': None, 'probe': ['duration>5'],
             'ops': [{'op': 'timings'}, {'op': 'pick', 'conds': ['duration>=3']}, {'op': 'pick', 'conds': ['duration>5']},
                     {'op': 'chain_timings'}, {'op': 'export', 'mode': 'subset'}]},
            # rejected conditions replaced mask_conditions but not the subset
            {'phase': ph, 'step': None, 'edge': None, 'probe': ['is_good==1'],
             'ops': [{'op': 'pick', 'conds': ['is_good==1']}, {'op': 'pick', 'conds': ['nope>1']},
                     {'op': 'pick', 'conds': ['is_good=1']}, {'op': 'pick', 'conds': ['is_good']},
                     {'op': 'export', 'mode': 'subset'}]},
            # subset export re-evaluated the conditions: overwritten metric / conditions on chain_ind itself
            {'phase': ph, 'step': None, 'edge': None, 'probe': ['m>3'],
             'ops': [{'op': 'compute', 'name': 'm', 'f': 'mean', 'mode': 'cycle', 'vals': _idx(n)},
                     {'op': 'pick', 'conds': ['m>3']}, {'op': 'add', 'name': 'm', 'vals': [9.0, 0.0, 0.0, 9.0, 0.0]},
                     {'op': 'export', 'mode': 'subset'}]},
            {'phase': ph, 'step': None, 'edge': None, 'probe': ['chain_ind==1'],
             'ops': [{'op': 'timings'}, {'op': 'add', 'name': 'x', 'vals': [1.0, 0.0, 1.0, 1.0, 0.0]},
                     {'op': 'pick', 'conds': ['x==1']}, {'op': 'pick', 'conds': ['chain_ind==1']},
                     {'op': 'export', 'mode': 'subset'}, {'op': 'chain_timings'}]},
            # length guard; reserved names; the 'index' column clash of reset_index
            {'phase': ph, 'step': None, 'edge': None, 'probe': ['index>=1'],
             'ops': [{'op': 'add', 'name': 'bad', 'vals': [1.0, 2.0, 3.0]}, {'op': 'add', 'name': 'index', 'vals': [0.0, 1.0, 2.0, 3.0, 4.0]},
                     {'op': 'add', 'name': 'is_good', 'vals': [0.0, 1.0, 0.0, 1.0, 1.0]},
                     {'op': 'pick', 'conds': ['is_good!=0'], 'as_str': 1},
                     {'op': 'add', 'name': 'chain_ind', 'vals': [5.0, 5.0, 5.0, 5.0, 5.0]}, {'op': 'chain_timings'}]},
            # dtype=int chain metric truncates a non-integral statistic (model first left it untruncated)
            {'phase': ph, 'step': None, 'edge': None, 'probe': ['cs==0'],
             'ops': [{'op': 'pick', 'conds': ['is_good>-1.0e-02']},
                     {'op': 'chain_metric', 'name': 'cs', 'f': 'mean', 'vals': [-5, -4, -3, 3, 4, 5, 0, 1, 2, -3, -2, -1, 5, -5], 'int': 1},
                     {'op': 'chain_metric', 'name': 'cn', 'f': 'mean', 'vals': [-5, -4, -3, -3, 4, -5, 0, -1, 2, -3, -2, -1, -5, -5], 'int': 1},
                     {'op': 'chain_metric', 'name': 'cf', 'f': 'mean', 'vals': [-5, -4, -3, -3, 4, -5, 0, -1, 2, -3, -2, -1, -5, -5], 'int': 0}]},
            # OUTSIDE THE DOMAIN (review B, C15 item 1): compute_cycle_metric checks no length.  7 values on 12 samples:
            # cache on -> [3,12,6,0] / [nan,14,11,0], cache off -> IndexError.  15 values: both routes agree.  The model
            # reproduces both routes (correspondence); the instance check claims nothing on the short vector.
            {'phase': REG * 4, 'step': None, 'edge': None, 'probe': ['m>=6'],
             'ops': [{'op': 'compute', 'name': 'm', 'f': 'sum', 'mode': 'cycle', 'vals': _idx(7)},
                     {'op': 'compute', 'name': 'a', 'f': 'sum', 'mode': 'augmented', 'vals': _idx(7)},
                     {'op': 'compute', 'name': 'l', 'f': 'len', 'mode': 'cycle', 'vals': _idx(11)},
                     {'op': 'pick', 'conds': ['is_good==1']}, {'op': 'export', 'mode': 'all'}]},
            {'phase': REG * 4, 'step': None, 'edge': None, 'probe': ['m>=6'],
             'ops': [{'op': 'compute', 'name': 'm', 'f': 'sum', 'mode': 'cycle', 'vals': _idx(15)},
                     {'op': 'compute', 'name': 'a', 'f': 'sum', 'mode': 'augmented', 'vals': _idx(15)},
                     {'op': 'compute', 'name': 'e', 'f': 'len', 'mode': 'augmented', 'vals': []},
                     {'op': 'compute', 'name': 'z', 'f': 'sum', 'mode': 'cycle', 'vals': []}]},
            # all six comparators, negative / decimal / exponent literals, NaN entries
            {'phase': ph, 'step': None, 'edge': None, 'probe': ['duration>=-1.5e0', 'a!=3.5', 'm<1e1'],
             'ops': [{'op': 'timings'}, {'op': 'compute', 'name': 'a', 'f': 'mean', 'mode': 'augmented', 'vals': _idx(n)},
                     {'op': 'compute', 'name': 'm', 'f': 'mean', 'mode': 'cycle', 'vals': _idx(n)},
                     {'op': 'match', 'conds': ['a==3.5']}, {'op': 'match', 'conds': ['a<=6.5', 'a>3.5']},
                     {'op': 'match', 'conds': ['a<3.5']}, {'op': 'match', 'conds': ['a>=.95e1', 'm>-2.']},
                     {'op': 'match', 'conds': []}, {'op': 'export', 'mode': 'conds', 'conds': []},
                     {'op': 'pick', 'conds': ['a!=3.5', 'duration==3', 'm<=+10']}, {'op': 'chain_timings'},
                     {'op': 'chain_metric', 'name': 'cm', 'f': 'sum', 'vals': _pattern(n), 'int': 0},
                     {'op': 'export', 'mode': 'conds', 'conds': ['cm<0', 'chain_position!=-1']}]},
        ]

    def generate(self, rng, tier):
        for i in range(4000 if tier == 'thorough' else 220):
            yield self.one(rng)

    def one(self, rng):
        r = rng.random()
        if r < 0.08:
            n = rng.randint(1, 6)
        elif r < 0.75:
            n = rng.randint(8, 80)
        else:
            n = rng.randint(80, 400)
        if rng.random() < 0.25:
            # alphabet phases: many short / irregular cycles
            ph = [rng.choice(_cyc.ALPHABET + [THR, 4.8, 5.5]) for _ in range(min(n, 40))]
        else:
            ph = _cyc.synth_phase(rng, n, reversing=rng.random() < 0.6)
        n = len(ph)
        step = rng.choice([None, None, None, np.pi])
        K = len(_cyc.segments_of(ph, step or _cyc.DEFAULT_STEP))
        names = ['is_good']
        values = {'is_good': [0, 1]}
        user = ['m', 'a', 'x', 'dur2', 'x.y', 'M-1']
        ops = []

        def vals():
            k = rng.random()
            if k < 0.3:
                return _idx(n)
            if k < 0.6:
                return [rng.randint(-9, 9) for _ in range(n)]
            return _pattern(n, rng.randint(1, 5), rng.randint(1, 9))

        def conds():
            return [gen_cond(rng, names, values) for _ in range(rng.choice([1, 1, 2, 2, 3]))]

        def know(nm, vs):
            if nm not in names:
                names.append(nm)
            values[nm] = vs

        L = rng.randint(1, 12)
        for _ in range(L):
            r = rng.random()
            if r < 0.2:
                nm = rng.choice(user + (['duration', 'chain_ind'] if rng.random() < 0.1 else []))
                f = rng.choice(FNAMES[:6])
                mode = rng.choice(['cycle', 'cycle', 'augmented'])
                v = vals()
                if rng.random() < 0.04:
                    # outside the domain: a vector without one value per sample (f total on an empty slice)
                    f = rng.choice(['sum', 'len'])
                    v = v[:rng.randint(0, n - 1)] if rng.random() < 0.7 else v + [1] * rng.randint(1, 5)
                ops.append({'op': 'compute', 'name': nm, 'f': f, 'mode': mode, 'vals': v})
                know(nm, sorted(set(v))[:6] + [len(v) // max(K, 1)])
            elif r < 0.32:
                nm = rng.choice(user + (['is_good', 'chain_ind', 'index', 'duration'] if rng.random() < 0.15 else []))
                kk = K if rng.random() < 0.85 else max(0, K + rng.choice([-1, 1, 2]))
                v = [float(rng.choice([-2, -1, 0, 0.5, 1, 2, 2.5, 10])) for _ in range(kk)]
                ops.append({'op': 'add', 'name': nm, 'vals': v})
                if kk == K:
                    know(nm, v)
            elif r < 0.36:
                ops.append({'op': 'add_from', 'name': rng.choice(user), 'src': rng.choice(user + ['duration', 'is_good'])})
            elif r < 0.44:
                ops.append({'op': 'timings'})
                know('duration', [1, 2, 3, n // max(K, 1)])
                know('start_sample', [0, n // 2])
                know('stop_sample', [n - 1, n // 2])
            elif r < 0.64:
                prev = [o['conds'] for o in ops if o['op'] == 'pick']
                # a third of the picks repeat an earlier selection verbatim (possibly after its metrics were overwritten)
                c = list(rng.choice(prev)) if prev and rng.random() < 0.35 else conds()
                ops.append({'op': 'pick', 'conds': c, **({'as_str': 1} if len(c) == 1 and rng.random() < 0.3 else {})})
                know('chain_ind', [-1, 0, 1])
            elif r < 0.74:
                ops.append({'op': 'chain_timings'})
                for nm in ('chain_start', 'chain_end', 'chain_len_samples', 'chain_len_cycles', 'chain_position'):
                    know(nm, [-1, 0, 1, 2])
            elif r < 0.8:
                nm = rng.choice(['cm', 'cs'])
                ops.append({'op': 'chain_metric', 'name': nm, 'f': rng.choice(FNAMES[:6]), 'vals': vals(), 'int': rng.choice([0, 1])})
                know(nm, [-1, 0])
            elif r < 0.9:
                mode = rng.choice(['all', 'subset', 'conds'])
                ops.append({'op': 'export', 'mode': mode, **({'conds': conds()} if mode == 'conds' else {})})
            else:
                ops.append({'op': 'match', 'conds': conds() if rng.random() < 0.95 else []})
        probe = [gen_cond(rng, names, values) for _ in range(rng.choice([0, 1, 1, 2, 3]))]
        return {'phase': ph, 'step': step, 'edge': rng.choice([None, None, 0.3]), 'probe': probe, 'ops': ops}


class Conditions(_Base):
    """Condition strings: every comparator x literal spelling on a fixed container (parser + semantics)."""
    name = 'conditions'
    exhaustive = True

    LITS = ['3', '-1.5e0', '2.5', '1e1', '+4', '.5', '3.', '0', '-0.0', ' 3', '3 ', '6.5', '-1', '1E0', '12.5e-1', '0.35e1']

    def generate(self, rng, tier):
        n = 14
        ph = REG * 4 + [0.1, 3.0]
        base = [{'op': 'timings'},
                {'op': 'compute', 'name': 'a', 'f': 'mean', 'mode': 'augmented', 'vals': _idx(n)},
                {'op': 'add', 'name': 'x.y', 'vals': [-1.5, 0.5, 2.5, 3.0, 10.0]}]
        for name in ['duration', 'a', 'x.y']:
            for sym in SYMS + ['=', '!', '<>', '=<', '']:
                conds = [name + sym + lit for lit in self.LITS]
                for chunk in (conds[:8], conds[8:]):
                    yield {'phase': ph, 'step': None, 'edge': None, 'probe': [chunk[0]],
                           'ops': base + [{'op': 'match', 'conds': [c]} for c in chunk] +
                                  [{'op': 'pick', 'conds': [chunk[1], chunk[2]]}]}


STREAMS = [Exhaustive(), Random(), Conditions()]


def _guard(fn):
    """An exception inside an instance check is a harness fault (an oracle tripping over an unexpected but legal
    output container), not the property's words failing: reported as mechanism-level, never as a violation."""
    def holds(self, case, out):
        try:
            return fn(self, case, out)
        except Exception as e:  # noqa
            return [Failure('instance-check-crashed', repr(e), literal=False)]
    return holds


for _cls in {_b for _s in STREAMS for _b in type(_s).__mro__ if _b.__module__ == __name__ and 'holds' in _b.__dict__}:
    _cls.holds = _guard(_cls.holds)
