"""Lean side of a check: build, proof audit (axioms, forbidden constructs), model driver."""
import os
import re
import subprocess
import tempfile
import time

VERIF = os.path.dirname(os.path.dirname(os.path.dirname(os.path.abspath(__file__))))
LEAN_DIR = os.path.join(VERIF, 'lean')
EXE = os.path.join(LEAN_DIR, '.lake', 'build', 'bin', 'emdmodel')
ALLOWED_AXIOMS = {'propext', 'Classical.choice', 'Quot.sound'}
FORBIDDEN = re.compile(r'\bsorry\b|\badmit\b|^\s*axiom\s|native_decide|bv_decide|implemented_by|'
                       r'\bunsafe\s|maxHeartbeats\s+0\b|ofReduceBool|\bextern\b', re.M)


class InfraError(Exception):
    """Toolchain missing / timeout: never a violation (exit 2)."""


def _run(cmd, timeout=3600, input=None, cwd=LEAN_DIR):
    try:
        return subprocess.run(cmd, cwd=cwd, input=input, capture_output=True, text=True, timeout=timeout)
    except FileNotFoundError as e:
        raise InfraError('toolchain missing: %s' % e)
    except subprocess.TimeoutExpired as e:
        raise InfraError('timeout: %s' % e)


def build(targets):
    """`lake build` of the given targets. Returns (ok, log)."""
    t0 = time.time()
    p = _run(['lake', 'build'] + list(targets))
    log = (p.stdout + p.stderr)[-6000:]
    if p.returncode != 0 and ('error: ' not in log):
        raise InfraError('lake build failed without a Lean error:\n' + log)
    return p.returncode == 0, log, time.time() - t0


def strip_comments(src):
    """Remove Lean block (nested) and line comments."""
    out = []
    i, depth, n = 0, 0, len(src)
    while i < n:
        if src.startswith('/-', i):
            depth += 1
            i += 2
        elif depth and src.startswith('-/', i):
            depth -= 1
            i += 2
        elif depth:
            if src[i] == '\n':
                out.append('\n')
            i += 1
        elif src.startswith('--', i):
            while i < n and src[i] != '\n':
                i += 1
        else:
            out.append(src[i])
            i += 1
    return ''.join(out)


def module_path(mod):
    return os.path.join(LEAN_DIR, *mod.split('.')) + '.lean'


def transitive_local_imports(mod, seen=None):
    """All modules of this project (EmdModel.*, Proofs.*) reachable from `mod`."""
    seen = seen if seen is not None else []
    if mod in seen:
        return seen
    p = module_path(mod)
    if not os.path.exists(p):
        return seen
    seen.append(mod)
    for m in re.findall(r'^\s*import\s+(\S+)', strip_comments(open(p).read()), re.M):
        if m.startswith('EmdModel') or m.startswith('Proofs'):
            transitive_local_imports(m, seen)
    return seen


def theorems_in(mod):
    """[(fully qualified name, kind)] for every `theorem` declared in the module file."""
    src = strip_comments(open(module_path(mod)).read())
    ns = []
    out = []
    for line in src.split('\n'):
        m = re.match(r'\s*namespace\s+(\S+)', line)
        if m:
            ns.append(m.group(1))
            continue
        m = re.match(r'\s*end\s+(\S+)\s*$', line)
        if m and ns and ns[-1] == m.group(1):
            ns.pop()
            continue
        m = re.match(r'\s*(?:@\[[^\]]*\]\s*)?(?:private\s+|protected\s+)?theorem\s+([^\s:({\[]+)', line)
        if m:
            out.append('.'.join(ns + [m.group(1)]))
    return out


def audit(mod, required=()):
    """Proof audit of one property module.

    Returns dict(ok, obligations=[names], discharged=[names], problems=[str], axioms={name: [..]}).
    """
    problems = []
    mods = transitive_local_imports(mod)
    for m in mods:
        src = strip_comments(open(module_path(m)).read())
        for hit in FORBIDDEN.finditer(src):
            problems.append('forbidden construct %r in %s' % (hit.group(0).strip(), m))
    names = theorems_in(mod)
    for r in required:
        if r not in names:
            problems.append('required theorem %s is missing from %s' % (r, mod))
    axioms = {}
    discharged = []
    if names:
        with tempfile.NamedTemporaryFile('w', suffix='.lean', dir=LEAN_DIR, delete=False) as f:
            f.write('import %s\n' % mod)
            for nm in names:
                f.write('#print axioms %s\n' % nm)
            tmp = f.name
        try:
            p = _run(['lake', 'env', 'lean', tmp])
        finally:
            os.unlink(tmp)
        text = p.stdout + p.stderr
        flat = re.sub(r'\s+', ' ', text)
        for nm in names:
            m = re.search(r"'%s' depends on axioms: \[([^\]]*)\]" % re.escape(nm), flat)
            if m:
                ax = [a.strip() for a in m.group(1).split(',') if a.strip()]
            elif re.search(r"'%s' does not depend on any axioms" % re.escape(nm), flat):
                ax = []
            else:
                problems.append('no axiom report for %s (%s)' % (nm, text[-300:].strip()))
                continue
            axioms[nm] = ax
            bad = [a for a in ax if a not in ALLOWED_AXIOMS]
            if bad:
                problems.append('theorem %s depends on non-standard axioms %s' % (nm, bad))
            else:
                discharged.append(nm)
    else:
        problems.append('no theorem found in %s' % mod)
    return dict(ok=not problems, obligations=names, discharged=discharged, problems=problems,
                axioms=axioms, modules=mods)


def leanchecker(mods):
    """Independent re-check of compiled modules (thorough tier)."""
    p = _run(['lake', 'env', 'leanchecker'] + list(mods), timeout=3000)
    return p.returncode == 0, (p.stdout + p.stderr)[-2000:]


def run_model(lines, timeout=3000):
    """Feed op lines to the model driver; returns list of result lines (same length)."""
    if not lines:
        return []
    data = '\n'.join(lines) + '\n'
    if os.path.exists(EXE):
        p = _run([EXE], input=data, timeout=timeout)
    else:
        p = _run(['lake', 'env', 'lean', '--run', 'Main.lean'], input=data, timeout=timeout)
    out = p.stdout.split('\n')
    if out and out[-1] == '':
        out.pop()
    if p.returncode != 0 or len(out) != len(lines):
        raise InfraError('model driver failed (rc=%s, %d lines for %d ops): %s'
                         % (p.returncode, len(out), len(lines), p.stderr[-500:]))
    return out
