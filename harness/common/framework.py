"""Check runner shared by all properties (DESIGN.md 2.5, 7).

A property module (harness/props/cXX.py) provides

    ID            'C12'
    LEAN_MODULES  ['Proofs.C12']          property-theorem modules (every theorem in them is an obligation)
    REQUIRED      ['C12.cv_all_cover',..] theorem names that must be present (guards against silent removal)
    STREAMS       [Stream(), ...]
    TRUSTED       [str]                   trusted-base lines for the evidence file
    ASSUMPTIONS   [str]
    RULE          str                     how cases are generated / what makes one non-trivial

and each Stream implements the methods documented below.
"""
import hashlib
import json
import os
import random
import sys
import time
import traceback
from concurrent.futures import ProcessPoolExecutor
import multiprocessing as mp

from . import lean
from .proto import Result

VERIF = lean.VERIF
EVIDENCE_DIR = os.path.join(VERIF, 'evidence')
REPLAY_DIR = os.path.join(EVIDENCE_DIR, 'replay')
KNOWN = os.path.join(VERIF, 'KNOWN_FINDINGS.json')

ERR_KINDS = ('ValueError', 'IndexError', 'KeyError', 'TypeError', 'AttributeError',
             'EMDSiftCovergeError', 'ZeroDivisionError', 'AssertionError', 'RecursionError',
             'MemoryError', 'OverflowError', 'Timeout')


def err_kind(e):
    n = type(e).__name__
    return n if n in ERR_KINDS else 'Other:' + n


class Failure:
    """An instance-check failure: the property's own words are false on the implementation."""

    def __init__(self, kind, detail='', literal=True):
        self.kind = kind          # fine-grained, stable id: matched against KNOWN_FINDINGS
        self.detail = detail
        # literal=False: the check evaluates the anchored *mechanism*, which is stronger than the property's
        # own words (another correct implementation could fail it). Such a failure is never reported as a
        # property violation with this input as replay; it counts as a broken correspondence (search follows).
        self.literal = literal

    def to_json(self):
        return {'kind': self.kind, 'detail': self.detail}


class Stream:
    """One family of cases for one property."""
    name = 'stream'
    exhaustive = False       # set True when generate() enumerates a finite space completely
    parallel = True          # run impl() in worker processes
    timeout_s = 120          # per-case budget for impl()

    def corpus(self):
        """Engineered / minimised past failures, run first (list of JSON-able case dicts)."""
        return []

    def generate(self, rng, tier):
        """Yield JSON-able case dicts; every random choice derives from `rng`."""
        return []

    def impl(self, case):
        """Run the real implementation on the case; return a JSON-able output. May raise."""
        raise NotImplementedError

    def ops(self, case, out):
        """Model op lines (list[str]) for this case (may use the impl output for oracle tables)."""
        return []

    def compare(self, case, out, results):
        """Correspondence: None if model and implementation agree, else a description.
        Return the string 'skip:<why>' to count the case as skipped (near tie etc.)."""
        return None

    def holds(self, case, out):
        """Instance check on the implementation: list of Failure (empty = property holds here)."""
        return []

    def tags(self, case, out):
        """Branch / exit-path labels for the distribution printed into the evidence."""
        return []

    def nontrivial(self, case, out):
        return True

    def shrink(self, case):
        """Yield smaller variants of a failing case (optional)."""
        return []


def _impl_worker(args):
    import contextlib
    import io
    import warnings
    import signal
    stream, case = args

    class _Timeout(BaseException):   # not an Exception: harness code that catches Exception must not swallow it
        pass

    def _on_alarm(signum, frame):
        raise _Timeout()
    armed = False
    try:
        try:
            signal.signal(signal.SIGALRM, _on_alarm)
            signal.setitimer(signal.ITIMER_REAL, float(getattr(stream, 'timeout_s', 120)))
            armed = True
        except (ValueError, AttributeError):   # not in the main thread
            pass
        with contextlib.redirect_stdout(io.StringIO()), warnings.catch_warnings():
            warnings.simplefilter('ignore')
            return ('ok', stream.impl(case))
    except _Timeout:
        return ('exc', 'Timeout', 'implementation call exceeded %ss' % getattr(stream, 'timeout_s', 120))
    except BaseException as e:  # noqa
        if isinstance(e, (KeyboardInterrupt, SystemExit)):
            raise
        return ('exc', err_kind(e), ''.join(traceback.format_exception_only(type(e), e)).strip()[-400:])
    finally:
        if armed:
            signal.setitimer(signal.ITIMER_REAL, 0)


class ImplError(dict):
    """impl() raised: {'error': kind, 'msg': ...} — streams see this as `out`."""


def run_impls(stream, cases, workers):
    outs = []
    if stream.parallel and len(cases) > 8 and workers > 1:
        ctx = mp.get_context('fork')
        with ProcessPoolExecutor(max_workers=workers, mp_context=ctx) as ex:
            res = list(ex.map(_impl_worker, [(stream, c) for c in cases], chunksize=max(1, len(cases) // (workers * 8))))
    else:
        res = [_impl_worker((stream, c)) for c in cases]
    for r in res:
        if r[0] == 'ok':
            outs.append(r[1])
        else:
            outs.append(ImplError(error=r[1], msg=r[2]))
    return outs


def case_key(case):
    return hashlib.sha1(json.dumps(case, sort_keys=True, default=str).encode()).hexdigest()[:12]


def load_known(pid):
    if not os.path.exists(KNOWN):
        return []
    data = json.load(open(KNOWN))
    return [e for e in data.get('findings', []) if e.get('property') == pid and e.get('status') == 'open']


def match_known(known, stream, failure):
    for e in known:
        m = e.get('match', {})
        if m.get('kind') == failure.kind and m.get('stream', stream.name) == stream.name:
            return e
    return None


def write_replay(pid, payload):
    os.makedirs(REPLAY_DIR, exist_ok=True)
    h = hashlib.sha1(json.dumps(payload, sort_keys=True, default=str).encode()).hexdigest()[:10]
    rel = os.path.join('evidence', 'replay', '%s-%s.json' % (pid, h))
    with open(os.path.join(VERIF, rel), 'w') as f:
        json.dump(payload, f, indent=1, default=str)
    return rel


class StreamRun:
    def __init__(self, stream):
        self.stream = stream
        self.cases = []
        self.outs = []
        self.failures = []        # (case, Failure)
        self.disagreements = []   # (case, detail, op lines)
        self.skipped = 0
        self.tags = {}
        self.nontrivial = set()
        self.model_ops = 0
        self.errors = {}


def _fresh_impl(stream, case):
    """Run one case in a fresh single-worker process (retry after a time-out)."""
    ctx = mp.get_context('fork')
    try:
        with ProcessPoolExecutor(max_workers=1, mp_context=ctx) as ex:
            return ex.submit(_impl_worker, (stream, case)).result(timeout=getattr(stream, 'timeout_s', 120) + 60)
    except Exception as e:  # noqa
        return ('exc', 'Timeout', 'retry in a fresh process did not finish: %r' % (e,))


def _looks_like_timeout(out, failures, disagreement):
    if isinstance(out, ImplError) and 'imeout' in str(out.get('error')):
        return True
    if any('imeout' in f.kind or 'does-not-terminate' in f.kind for f in failures):
        return True
    return bool(disagreement) and 'imeout' in str(disagreement)


def _judge(stream, c, o, results):
    """(disagreement or None/skip-string, [Failure])"""
    try:
        d = stream.compare(c, o, results)
    except Exception as e:
        d = 'compare raised %r on %s' % (e, [r.raw[:120] for r in results])
    try:
        fs = stream.holds(c, o) or []
    except Exception as e:
        fs = [Failure('instance-check-crashed', repr(e))]
    return d, fs


def execute_stream(stream, cases, workers):
    run = StreamRun(stream)
    run.cases = cases
    run.outs = run_impls(stream, cases, workers)
    # model ops
    all_ops, spans = [], []
    same_error = set()
    for idx0, (c, o) in enumerate(zip(cases, run.outs)):
        try:
            ops = stream.ops(c, o) or []
        except Exception as e:  # harness bug: surfaces as a correspondence problem, with detail
            ops = []
            if isinstance(o, ImplError) and err_kind(e) == o.get('error'):
                # the harness's reference computation (oracle table) fails exactly like the implementation did:
                # nothing to compare; whether that error is acceptable is decided by holds()
                same_error.add(idx0)
            else:
                run.disagreements.append((c, 'harness could not encode op: %r' % (e,), []))
        spans.append((len(all_ops), len(all_ops) + len(ops)))
        all_ops.extend(ops)
    run.model_ops = len(all_ops)
    results = [Result(l) for l in lean.run_model(all_ops)]
    retried = 0
    for idx, (c, o, (a, b)) in enumerate(zip(cases, run.outs, spans)):
        d, fs = _judge(stream, c, o, results[a:b])
        if idx in same_error:
            d = 'skip:oracle computation raised the same error as the implementation'
        ops_c = all_ops[a:b]
        if _looks_like_timeout(o, fs, d if not (isinstance(d, str) and d.startswith('skip:')) else None) and retried < 8:
            # A time-out may be spurious (on this image fork() inside multiprocessing.Pool occasionally stalls in a
            # library's pre-fork handler under load): re-run the case once in a fresh process before believing it.
            retried += 1
            r = _fresh_impl(stream, c)
            o2 = r[1] if r[0] == 'ok' else ImplError(error=r[1], msg=r[2])
            try:
                ops2 = stream.ops(c, o2) or []
                res2 = [Result(l) for l in lean.run_model(ops2)]
                d, fs = _judge(stream, c, o2, res2)
                o, ops_c = o2, ops2
                run.outs[idx] = o2
                run.tags['retried-after-timeout'] = run.tags.get('retried-after-timeout', 0) + 1
            except Exception:
                pass
        if isinstance(o, ImplError):
            run.errors[o['error']] = run.errors.get(o['error'], 0) + 1
        if isinstance(d, str) and d.startswith('skip:'):
            run.skipped += 1
        elif d:
            run.disagreements.append((c, d, ops_c))
        for f in fs:
            if getattr(f, 'literal', True):
                run.failures.append((c, f))
            else:
                run.disagreements.append((c, 'mechanism check %s: %s' % (f.kind, f.detail), ops_c))
        try:
            for t in stream.tags(c, o):
                run.tags[t] = run.tags.get(t, 0) + 1
            if stream.nontrivial(c, o):
                run.nontrivial.add(case_key(c))
        except Exception:
            pass
    return run


def shrink_failure(stream, case, kind, budget=200, time_budget=45.0):
    """Greedy shrinking: keep a smaller variant while it still fails with the same kind.
    Bounded in steps and in wall time (a change that makes the code hang must not stall the report)."""
    cur = case
    steps = 0
    improved = True
    t0 = time.time()
    saved = getattr(stream, 'timeout_s', 120)
    try:
        stream.timeout_s = min(saved, 15)
        while improved and steps < budget and time.time() - t0 < time_budget:
            improved = False
            for cand in stream.shrink(cur):
                steps += 1
                if steps >= budget or time.time() - t0 >= time_budget:
                    break
                r = _impl_worker((stream, cand))
                out = r[1] if r[0] == 'ok' else ImplError(error=r[1], msg=r[2])
                try:
                    fs = stream.holds(cand, out) or []
                except Exception:
                    fs = []
                if any(f.kind == kind and getattr(f, 'literal', True) for f in fs):
                    cur = cand
                    improved = True
                    break
    finally:
        stream.timeout_s = saved
    return cur


def run_check(prop, tier, seed, replay=None, workers=None):
    t0 = time.time()
    pid = prop.ID
    workers = workers or min(16, os.cpu_count() or 4)
    known = load_known(pid)
    lines_out = []
    notes = []

    # 1. build + 2. proof audit ------------------------------------------------
    targets = list(prop.LEAN_MODULES) + ['emdmodel']
    build_ok, build_log, build_s = lean.build(targets)
    audits = []
    proof_problems = []
    if build_ok:
        for m in prop.LEAN_MODULES:
            a = lean.audit(m, [r for r in getattr(prop, 'REQUIRED', [])
                               if r.split('.')[0] == m.split('.')[-1] or len(prop.LEAN_MODULES) == 1])
            audits.append(a)
            proof_problems += a['problems']
        if tier == 'thorough' and not proof_problems:
            mods = []
            for a in audits:
                for m in a['modules']:
                    if m not in mods:
                        mods.append(m)
            ok, log = lean.leanchecker(mods)
            if not ok:
                proof_problems.append('leanchecker rejected compiled modules: ' + log[-400:])
            else:
                notes.append('leanchecker re-checked %d modules' % len(mods))
    else:
        proof_problems.append('lake build failed: ' + build_log[-1500:])
        if not os.path.exists(lean.EXE):
            raise lean.InfraError('model driver could not be built:\n' + build_log)
    obligations = [n for a in audits for n in a['obligations']]
    discharged = [n for a in audits for n in a['discharged']]

    # 3-5. streams -------------------------------------------------------------
    rng = random.Random(seed)
    runs = []
    for s in prop.STREAMS:
        if replay is not None:
            if replay.get('stream') != s.name:
                continue
            cases = [replay['case']]
        else:
            srng = random.Random(rng.getrandbits(64))
            cases, seen = [], set()
            for c in list(s.corpus()) + list(s.generate(srng, tier)):
                k = case_key(c)
                if k not in seen:
                    seen.add(k)
                    cases.append(c)
        runs.append(execute_stream(s, cases, workers))

    # 6. classify ---------------------------------------------------------------
    violations = 0
    known_hit = {}
    unknown = {}
    for r in runs:
        for c, f in r.failures:
            e = match_known(known, r.stream, f)
            if e is not None:
                known_hit.setdefault(e['key'], (e, r.stream, c, f))
            else:
                unknown.setdefault((r.stream.name, f.kind), (r.stream, c, f))
    for key, (e, s, c, f) in known_hit.items():
        lines_out.append('KNOWN-FINDING: property=%s %s [%s]' % (pid, e.get('description', f.kind), key))
    for n_rep, ((sname, kind), (s, c, f)) in enumerate(unknown.items()):
        small = shrink_failure(s, c, kind) if n_rep < 6 else c
        r = _impl_worker((s, small))
        out = r[1] if r[0] == 'ok' else ImplError(error=r[1], msg=r[2])
        fs = [x for x in (s.holds(small, out) or []) if x.kind == kind] or [f]
        rel = write_replay(pid, {
            'property': pid, 'stream': sname, 'case': small, 'original_case': c,
            'failure': fs[0].to_json(), 'implementation_output': out,
            'how_to_replay': './vcheck %s --replay <this file>' % pid})
        lines_out.append('VIOLATION property=%s replay=%s' % (pid, rel))
        violations += 1

    broken = []
    if proof_problems:
        broken.append({'what': 'proof', 'problems': proof_problems})
    for r in runs:
        if r.disagreements:
            c, d, ops = r.disagreements[0]
            broken.append({'what': 'correspondence', 'stream': r.stream.name,
                           'count': len(r.disagreements), 'case': c, 'detail': d, 'ops': ops})
    searched = 0
    if broken and violations == 0 and replay is None:
        # Broken proof/correspondence but no concrete property failure yet: search the
        # implementation with the instance checks on fresh, deeper generations.
        found = None
        for attempt in range(3):
            for s in prop.STREAMS:
                srng = random.Random(seed * 1000003 + 17 * attempt + len(s.name))
                cases = list(s.generate(srng, 'thorough' if attempt else tier))
                if s.exhaustive and attempt > 0 and tier == 'thorough':
                    continue
                rr = execute_stream(s, cases, workers)
                searched += len(cases)
                for c, f in rr.failures:
                    if match_known(known, s, f) is None:
                        found = (s, c, f)
                        break
                if found:
                    break
            if found or time.time() - t0 > 900:
                break
        if found:
            s, c, f = found
            small = shrink_failure(s, c, f.kind)
            rel = write_replay(pid, {'property': pid, 'stream': s.name, 'case': small, 'original_case': c,
                                     'failure': f.to_json(), 'broken': broken,
                                     'how_to_replay': './vcheck %s --replay <this file>' % pid})
            lines_out.append('VIOLATION property=%s replay=%s' % (pid, rel))
        else:
            rel = write_replay(pid, {'property': pid, 'no_failing_input_found': True, 'broken': broken,
                                     'searched_cases': searched,
                                     'stream': broken[-1].get('stream'), 'case': broken[-1].get('case'),
                                     'note': 'the named theorem / correspondence no longer checks; the '
                                             'property is no longer shown to hold'})
            lines_out.append('VIOLATION property=%s replay=%s no-failing-input-found' % (pid, rel))
        violations += 1

    # evidence -------------------------------------------------------------------
    evaluations = sum(len(r.cases) for r in runs)
    distinct = sum(len(r.nontrivial) for r in runs)
    samples = []
    for r in runs:
        for c, o in list(zip(r.cases, r.outs))[:2]:
            samples.append({'stream': r.stream.name, 'case': _trim(c), 'implementation_output': _trim(o)})
    samples.append({'obligations': obligations[:40]})
    ev = {
        'property_id': pid,
        'tier': tier,
        'seed': seed,
        'level': 'proof',
        'coverage': {
            'obligations': len(obligations),
            'discharged': len(discharged) if not proof_problems else min(len(discharged), max(0, len(obligations) - 1)),
            'checker_cmd': 'cd lean && lake build %s && lake env lean <#print axioms of every theorem in %s>%s'
                           % (' '.join(prop.LEAN_MODULES), ','.join(prop.LEAN_MODULES),
                              ' && lake env leanchecker <modules>' if tier == 'thorough' else ''),
            'trusted_base': list(getattr(prop, 'TRUSTED', [])) + [
                'Lean 4.33.0 kernel; axioms allowed: propext, Classical.choice, Quot.sound (audited by #print axioms on every run)',
                'hand-written model lean/EmdModel tied to /repo only by the correspondence run below',
                'harness: float->exact-rational encoding, canonicalisation, instance-check oracles'],
            'theorems': obligations,
            'axioms': {k: v for a in audits for k, v in a['axioms'].items()},
            'proof_problems': proof_problems,
            'evaluations': evaluations,
            'distinct_nontrivial': distinct,
            'rule': getattr(prop, 'RULE', ''),
            'samples': samples,
            'exhaustive': all(r.stream.exhaustive for r in runs) if runs else False,
            'traces_validated_against_impl': sum(len(r.cases) - len(r.disagreements) - r.skipped for r in runs),
            'streams': {r.stream.name: {
                'cases': len(r.cases), 'model_ops': r.model_ops, 'exhaustive': r.stream.exhaustive,
                'disagreements': len(r.disagreements), 'instance_failures': len(r.failures),
                'skipped_near_tie': r.skipped, 'distinct_nontrivial': len(r.nontrivial),
                'impl_error_kinds': r.errors,
                'distribution': dict(sorted(r.tags.items()))} for r in runs},
            'known_findings_hit': sorted(known_hit),
            'broken': [{k: (_trim(v) if k in ('case', 'ops') else v) for k, v in b.items()} for b in broken],
            'failing_input_search_cases': searched,
            'notes': notes,
            'lean_build_s': round(build_s, 2),
        },
        'assumptions': list(getattr(prop, 'ASSUMPTIONS', [])),
        'wall_s': round(time.time() - t0, 2),
        'violations': violations,
    }
    if replay is None:
        os.makedirs(EVIDENCE_DIR, exist_ok=True)
        with open(os.path.join(EVIDENCE_DIR, '%s.json' % pid), 'w') as f:
            json.dump(ev, f, indent=1, default=str)
    for l in lines_out:
        print(l)
    summary = '%s %s seed=%d: %d obligations (%d discharged), %d cases, %d disagreements, %d instance failures, %d skipped, %.1fs' % (
        pid, tier, seed, len(obligations), len(discharged), evaluations,
        sum(len(r.disagreements) for r in runs), sum(len(r.failures) for r in runs),
        sum(r.skipped for r in runs), time.time() - t0)
    print(summary)
    if replay is not None:
        for r in runs:
            for c, o in zip(r.cases, r.outs):
                print('replayed case output:', json.dumps(_trim(o), default=str)[:1500])
            for c, d, ops in r.disagreements:
                print('model/implementation disagreement:', d)
            for c, f in r.failures:
                print('instance failure:', f.kind, f.detail)
    sys.stdout.flush()
    return 1 if violations else 0


def _trim(o, n=24):
    if isinstance(o, dict):
        return {k: _trim(v, n) for k, v in list(o.items())[:40]}
    if isinstance(o, (list, tuple)):
        if len(o) > n:
            return [_trim(x, n) for x in o[:n]] + ['... (%d items)' % len(o)]
        return [_trim(x, n) for x in o]
    if isinstance(o, str) and len(o) > 400:
        return o[:400] + '...'
    return o
