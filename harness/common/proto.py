"""Line protocol between the harness and the Lean model driver (DESIGN.md 2.2).

Floats are transmitted as the exact dyadic rational they denote; the model
answers in exact rationals, which are parsed into `fractions.Fraction`.
"""
from fractions import Fraction
import math


def rat(v):
    """Exact text form of a number (int, bool, float, Fraction, numpy scalar)."""
    if isinstance(v, bool):
        return '1' if v else '0'
    if isinstance(v, int):
        return str(v)
    if isinstance(v, Fraction):
        return str(v.numerator) if v.denominator == 1 else '%d/%d' % (v.numerator, v.denominator)
    try:
        import numpy as np
        if isinstance(v, np.integer):
            return str(int(v))
        if isinstance(v, np.bool_):
            return '1' if bool(v) else '0'
    except ImportError:  # pragma: no cover
        pass
    f = float(v)
    if math.isnan(f) or math.isinf(f):
        raise ValueError('non-finite value cannot be sent to the model: %r' % (v,))
    n, d = f.as_integer_ratio()
    return str(n) if d == 1 else '%d/%d' % (n, d)


def vec(values):
    """A '|'-separated vector slot; None -> 'none'."""
    if values is None:
        return 'none'
    return ' '.join(rat(v) for v in values)


def op(name, args=None, vecs=()):
    parts = [name]
    for k, v in (args or {}).items():
        sv = v if isinstance(v, str) else rat(v)
        assert ' ' not in sv and '|' not in sv and '=' not in sv, sv
        parts.append('%s=%s' % (k, sv))
    line = ' '.join(parts)
    for v in vecs:
        line += ' | ' + vec(v)
    return line


def _tok(t):
    if t in ('none', 'nan'):
        return None
    if '/' in t:
        n, d = t.split('/')
        return Fraction(int(n), int(d))
    try:
        return Fraction(int(t))
    except ValueError:
        return t


class Result:
    """Parsed result line: status ('ok' | 'err' | 'bad-op' | ...), args dict, vecs list."""

    def __init__(self, line):
        self.raw = line.rstrip('\n')
        segs = self.raw.split('|')
        head = segs[0].split()
        self.status = head[0] if head else ''
        self.args = {}
        self.words = []
        for w in head[1:]:
            if '=' in w:
                k, v = w.split('=', 1)
                self.args[k] = _tok(v)
            else:
                self.words.append(w)
        self.vecs = []
        for s in segs[1:]:
            toks = s.split()
            if toks == ['none']:
                self.vecs.append(None)
            else:
                self.vecs.append([_tok(t) for t in toks])

    @property
    def ok(self):
        return self.status == 'ok'

    def __repr__(self):
        return 'Result(%r)' % (self.raw[:200],)


def fr(v):
    """Exact Fraction of a float / int."""
    if isinstance(v, Fraction):
        return v
    if isinstance(v, int):
        return Fraction(v)
    return Fraction(*float(v).as_integer_ratio())
